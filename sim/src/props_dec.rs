//! Script generators (workload + schedule + fault mix) for the decoder-side properties.

use crate::dec::*;
use crate::foreign::{self, GenCfg, Spec};
use crate::gen;
use crate::refinf::{self, Opts, Verdict};
use crate::rng::Rng;
use crate::runner::{CheckDef, Tier};
use crate::script::Script;

pub struct ValidStream {
    pub bytes: Vec<u8>,
    pub enc_len: usize,
    pub plain_len: usize,
    pub max_dist: usize,
    pub cinfo: u32,
    pub foreign: bool,
}

thread_local! {
    /// set by generators whose property does not need RFC-table validity (C05, C07, C08): the foreign encoder
    /// may then spell length 258 as 284 + 31 extra bits
    pub static ALLOW_ALT258: std::cell::Cell<bool> = const { std::cell::Cell::new(false) };
}

/// A stream whose ENCODED length is a multiple of 65536 minus k (k = 0..8), or of 256 minus k: stored blocks of
/// computed sizes in front of a short final Huffman block. Decoders that count input in narrow integers, or
/// hand back read-ahead bytes modulo something, meet their boundary here.
fn sized_stream(rng: &mut Rng, zlib: bool) -> ValidStream {
    let tail_plain: Vec<u8> = { let n = rng.range(1, 12); rng.bytes(n) };
    let fin = miniz_oxide::deflate::compress_to_vec(&tail_plain, 1); // one final (fixed or stored) block
    let modulus = rng.pick(&[65536usize, 65536, 65536, 256]);
    let m = if modulus == 256 { rng.range(2, 40) } else { rng.range(1, 2) };
    let k = rng.range(0, 8);
    let hdr = if zlib { 2 } else { 0 };
    let trailer = if zlib { 4 } else { 0 };
    // what the property calls the encoded length is deflate data + header + trailer; the boundary of interest is
    // where the deflate data ends (read-ahead is handed back there), so aim that point
    let deflate_len = modulus * m - k - if rng.chance(1, 2) { 0 } else { hdr };
    let mut room = deflate_len.saturating_sub(fin.len());
    let mut body: Vec<u8> = Vec::with_capacity(deflate_len + 8);
    let mut plain: Vec<u8> = Vec::new();
    while room >= 5 {
        let l = (room - 5).min(65535).min(if room - 5 > 65535 + 5 { 65535 } else { room - 5 });
        // leave at least 5 bytes for a following stored header if something remains
        let l = if room - 5 - l > 0 && room - 5 - l < 5 { l - 5 } else { l };
        body.push(0);
        body.extend_from_slice(&(l as u16).to_le_bytes());
        body.extend_from_slice(&(!(l as u16)).to_le_bytes());
        let d = rng.bytes(l);
        body.extend_from_slice(&d);
        plain.extend_from_slice(&d);
        room -= 5 + l;
    }
    body.extend_from_slice(&fin);
    plain.extend_from_slice(&tail_plain);
    let mut bytes = Vec::with_capacity(body.len() + 6);
    if zlib {
        bytes.extend_from_slice(&[0x78, 0x01]);
    }
    bytes.extend_from_slice(&body);
    if zlib {
        bytes.extend_from_slice(&refinf::adler32_def(1, &plain).to_be_bytes());
    }
    let _ = trailer;
    let v = refinf::inflate(&bytes, &Opts::flat(zlib));
    if v.verdict != Verdict::Valid || v.out != plain || v.consumed != bytes.len() {
        panic!("HARNESS: sized_stream built a stream the reference inflater does not accept: {:?}", v.verdict);
    }
    ValidStream { enc_len: bytes.len(), plain_len: plain.len(), max_dist: 0, cinfo: 7, bytes, foreign: true }
}

/// A valid stream from the foreign encoder (70 %) or from the crate's own compressor (30 %).
pub fn valid_stream(rng: &mut Rng, zlib: bool, target: usize, max_dist: usize, st_feat: Option<&mut Vec<&'static str>>) -> ValidStream {
    if target >= 200 && max_dist >= 32768 && rng.chance(1, 40) {
        return sized_stream(rng, zlib);
    }
    if rng.chance(7, 10) || max_dist < 32768 {
        // 6 %: "window edge" family (first part produces exactly P bytes, next token sits on the edge)
        let edge = if max_dist >= 32768 && rng.chance(6, 100) {
            rng.pick(&[32766usize, 32767, 32768, 32769, 65535, 65536, 65537, 98304, 255, 256, 257, 1023, 1024, 1025, 4095, 4096, 4097])
        } else {
            0
        };
        let cfg = GenCfg { zlib, target: if edge > 0 { target.min(3000) } else { target }, spec: Spec::None, max_dist, edge, alt258: ALLOW_ALT258.with(|c| c.get()) && rng.chance(1, 3) };
        let s = foreign::generate(rng, &cfg);
        let v = refinf::inflate(&s.bytes, &Opts::flat(zlib));
        if v.verdict != Verdict::Valid || v.out != s.plain || v.consumed != s.enc_len {
            panic!("HARNESS: reference inflater disagrees with the foreign encoder's ground truth: {:?} out {} vs {} consumed {} vs {}", v.verdict, v.out.len(), s.plain.len(), v.consumed, s.enc_len);
        }
        if let Some(f) = st_feat {
            let ft = &s.feat;
            if ft.long_code_used {
                f.push("probe.fe.long_code_used");
            }
            if ft.single_sym_code {
                f.push("probe.fe.single_symbol_code");
            }
            if ft.no_dist_code {
                f.push("probe.fe.no_dist_code");
            }
            if ft.run_crosses_hlit {
                f.push("probe.fe.run_crosses_hlit");
            }
            if ft.rep16 {
                f.push("probe.fe.rep16");
            }
            if ft.rep17 {
                f.push("probe.fe.rep17");
            }
            if ft.rep18 {
                f.push("probe.fe.rep18");
            }
            if ft.empty_stored {
                f.push("probe.fe.empty_stored");
            }
            if ft.empty_fixed {
                f.push("probe.fe.empty_fixed");
            }
            if ft.empty_dynamic {
                f.push("probe.fe.empty_dynamic");
            }
            if ft.len258 {
                f.push("probe.fe.len258");
            }
            if ft.dist32768 {
                f.push("probe.fe.dist32768");
            }
            if ft.overlap {
                f.push("probe.fe.overlap");
            }
            if ft.nonminimal_hdr {
                f.push("probe.fe.nonminimal_header");
            }
            const AL: [&str; 8] = [
                "probe.fe.stored_at_bit0", "probe.fe.stored_at_bit1", "probe.fe.stored_at_bit2", "probe.fe.stored_at_bit3", "probe.fe.stored_at_bit4", "probe.fe.stored_at_bit5", "probe.fe.stored_at_bit6",
                "probe.fe.stored_at_bit7",
            ];
            for b in 0..8 {
                if ft.stored_align & (1 << b) != 0 {
                    f.push(AL[b]);
                }
            }
        }
        let cinfo = if zlib { (s.bytes[0] >> 4) as u32 } else { 7 };
        ValidStream { enc_len: s.enc_len, plain_len: s.plain.len(), max_dist: s.max_dist, cinfo, bytes: s.bytes, foreign: true }
    } else {
        let p = gen::plaintext(rng, target);
        let level = rng.below(11) as u8;
        let bytes = if zlib { miniz_oxide::deflate::compress_to_vec_zlib(&p, level) } else { miniz_oxide::deflate::compress_to_vec(&p, level) };
        let v = refinf::inflate(&bytes, &Opts::flat(zlib));
        // a wrong crate-produced stream is C01/C10 territory; here it would only be a bad workload
        let ok = v.verdict == Verdict::Valid && v.out == p;
        if !ok {
            // fall back to a foreign stream so that this run still means something
            return valid_stream(rng, zlib, target, 32767, None);
        }
        let cinfo = if zlib { (bytes[0] >> 4) as u32 } else { 7 };
        ValidStream { enc_len: bytes.len(), plain_len: p.len(), max_dist: v.max_dist, cinfo, bytes, foreign: false }
    }
}

/// Object reuse: in some runs the decoder object has a past - an earlier stream (valid, corrupted, a
/// targeted RFC violation, random bytes; run to its end or abandoned after a few calls) followed by
/// `init()` / `reset*()`. `valid_premise`: the stream of the run proper is valid by construction, so the
/// stale-window policy MinReset may be used for the streaming wrapper as well.
pub fn add_prelude(rng: &mut Rng, s: &mut Script, valid_premise: bool) {
    let zl = rng.chance(1, 2);
    let bytes: Vec<u8> = match rng.below(10) {
        0 | 1 => {
            let spec = foreign::ALL_SPECS[rng.usize_below(foreign::ALL_SPECS.len())];
            let zl2 = zl || spec.is_zlib();
            s.set("prelude_zlib", zl2 as i64);
            let cfg = GenCfg { zlib: zl2, target: rng.range(0, 600), spec, max_dist: 32768, edge: 0, alt258: false };
            foreign::generate(rng, &cfg).bytes
        }
        2 => {
            s.set("prelude_zlib", zl as i64);
            let n = rng.range(0, 200);
            rng.bytes(n)
        }
        x => {
            s.set("prelude_zlib", zl as i64);
            let t = if rng.chance(1, 8) { rng.range(30_000, 70_000) } else { rng.range(0, 3000) };
            let mut b = valid_stream(rng, zl, t, 32768, None).bytes;
            if x < 6 && !b.is_empty() {
                // corrupted or cut short
                let mut st = crate::script::Stats::default();
                b = apply_faults(&b, &[random_fault(rng, b.len())], &mut st);
            }
            b
        }
    };
    s.set("prelude", 1);
    s.set("prelude_chunk", match rng.below(4) {
        0 => 1,
        1 => rng.range(2, 40) as i64,
        _ => 1 << 20,
    });
    s.set("prelude_calls", match rng.below(4) {
        0 => rng.range(1, 3) as i64,
        1 => rng.range(4, 40) as i64,
        _ => 100_000,
    });
    let pol = if valid_premise { rng.pick(&[0i64, 1, 2, 2, 3]) } else { rng.pick(&[0i64, 1, 3]) };
    s.set("prelude_policy", pol);
    if (pol == 1 || pol == 2) && s.c("entry") == 1 {
        // these policies keep the data format of the state
        s.set("prelude_zlib", s.c("zlib"));
    }
    s.set_blob("prelude", bytes);
}

/// Flag dimensions shared by the decoder checks: ignore-checksum, stop-at-block-boundary, object reuse.
fn add_dims(rng: &mut Rng, s: &mut Script, valid_premise: bool, allow_ignore: bool) {
    let e = s.c("entry");
    if allow_ignore && s.c("zlib") != 0 && e != 2 && rng.chance(1, 8) {
        s.set("ignore_adler", 1);
    }
    if e == 0 && rng.chance(1, 12) {
        s.set("stop_bb", 1);
    }
    if (e == 0 || e == 1) && s.c("family") == 0 && rng.chance(1, 10) {
        add_prelude(rng, s, valid_premise);
    }
    // the checksum may be requested explicitly (for a raw stream there is no trailer to read)
    if e == 0 && rng.chance(1, 10) {
        s.set("compute_adler", 1);
    }
}

fn small_target(rng: &mut Rng, tier: Tier) -> usize {
    let big = if tier == Tier::Thorough { 6 } else { 3 };
    match rng.below(100) {
        x if x < big => rng.range(40_000, 250_000),
        x if x < 18 => rng.range(600, 6000),
        _ => rng.range(0, 600),
    }
}

fn min_ring_bits(max_dist: usize, zlib: bool, cinfo: u32) -> usize {
    let mut b = 0usize;
    while (1usize << b) < max_dist {
        b += 1;
    }
    if zlib {
        b = b.max(cinfo as usize + 8);
    }
    b
}

fn pick_entry(rng: &mut Rng, weights: &[(i64, u64)]) -> i64 {
    let total: u64 = weights.iter().map(|w| w.1).sum();
    let mut x = rng.below(total);
    for (e, w) in weights {
        if x < *w {
            return *e;
        }
        x -= w;
    }
    weights[0].0
}

/// entry codes used by pick_entry: 0 core flat, 10 core ring, 1 inflate(), 2 to_vec, 3 slice_iter
fn set_entry(s: &mut Script, rng: &mut Rng, e: i64, vs: Option<&ValidStream>, zlib: bool, n_in: usize) {
    let style = rng.next_u64();
    match e {
        0 => {
            s.set("entry", 0);
            s.set("mode", 0);
            s.ops = gen::core_ops(rng, n_in, style);
            s.set("cap_extra", rng.pick(&[1i64, 2, 259, 600]));
        }
        10 => {
            s.set("entry", 0);
            s.set("mode", 1);
            let mut minb = vs.map(|v| min_ring_bits(v.max_dist, zlib, v.cinfo)).unwrap_or(8);
            if vs.map(|v| v.plain_len > 4096).unwrap_or(false) {
                minb = minb.max(8); // tiny rings on big outputs only multiply the call count
            }
            let bits = if rng.chance(1, 3) { 15 } else { rng.range(minb.min(16), 16) };
            s.set("ring_bits", bits as i64);
            s.set("ringfill", rng.below(1 << 30) as i64);
            s.ops = gen::core_ops(rng, n_in, style);
        }
        1 => {
            s.set("entry", 1);
            if rng.chance(1, 10) {
                s.set("first_finish", 1);
                let pl = vs.map(|v| v.plain_len).unwrap_or(1000);
                let ol = match rng.below(4) {
                    0 => pl,
                    1 => pl + 1,
                    _ => pl + rng.range(0, 500),
                };
                s.ops = vec![vec![n_in as i64, ol as i64, 4]];
            } else {
                s.ops = gen::stream_ops(rng, n_in, style, &[0, 0, 0, 1, 2, 5]);
                s.set("finish_tail", rng.chance(1, 2) as i64);
            }
        }
        2 => {
            s.set("entry", 2);
            s.set("limit", if rng.chance(1, 2) { -1 } else { 1 << 40 });
        }
        _ => {
            s.set("entry", 3);
            let k = rng.range(0, 6);
            let mut left = n_in;
            for _ in 0..k {
                let c = gen::chunk(rng, left).max(1);
                s.ops.push(vec![c as i64]);
                left = left.saturating_sub(c);
            }
            s.set("cap_extra", rng.pick(&[1i64, 1, 2, 100]));
        }
    }
}

// ------------------------------------------------------------------------------------------------
// C03
// ------------------------------------------------------------------------------------------------

pub fn gen_c03(rng: &mut Rng, _i: u64, tier: Tier) -> Script {
    if rng.chance(8, 100) {
        let zlib = rng.chance(1, 2);
        let target = small_target(rng, tier).min(20_000);
        let vs = valid_stream(rng, zlib, target, 32768, None);
        return c_entry_script(rng, "C03", zlib, &vs, None);
    }
    let mut s = Script::new("C03", "dec");
    let zlib = rng.chance(1, 2);
    let target = small_target(rng, tier);
    let mut feats = Vec::new();
    let vs = valid_stream(rng, zlib, target, 32768, Some(&mut feats));
    s.set("zlib", zlib as i64);
    s.set("clauses", CL_C03);
    s.set("probe", rng.chance(1, 8) as i64);
    let e = pick_entry(rng, &[(0, 25), (10, 25), (1, 25), (2, 10), (3, 15)]);
    set_entry(&mut s, rng, e, Some(&vs), zlib, vs.bytes.len());
    s.set("foreign", vs.foreign as i64);
    s.set_blob("stream", vs.bytes);
    add_dims(rng, &mut s, true, true);
    for f in feats {
        s.cfg.push((format!("+{}", f), 1));
    }
    s
}

// ------------------------------------------------------------------------------------------------
// C04
// ------------------------------------------------------------------------------------------------

fn fault_offset(rng: &mut Rng, n: usize) -> usize {
    if n == 0 {
        return 0;
    }
    match rng.below(10) {
        0..=3 => rng.usize_below(n.min(24)),              // header / tables
        4 | 5 => n - 1 - rng.usize_below(n.min(8)),        // last bytes: final block end, trailer
        _ => rng.usize_below(n),
    }
}

pub fn random_fault(rng: &mut Rng, n: usize) -> Vec<i64> {
    let off = fault_offset(rng, n) as i64;
    match rng.below(8) {
        0 | 1 | 2 => vec![F_FLIP, off * 8 + rng.below(8) as i64],
        3 => vec![F_SET, off, rng.below(256) as i64],
        4 => vec![F_INS, off, rng.range(1, 6) as i64, rng.below(1 << 30) as i64],
        5 => vec![F_DEL, off, rng.range(1, 6) as i64],
        6 => vec![F_DUP, off, rng.range(1, 12) as i64],
        _ => {
            let len = rng.range(1, 8) as i64;
            let b = fault_offset(rng, n) as i64;
            vec![F_SWAP, off, b, len]
        }
    }
}

pub fn gen_c04(rng: &mut Rng, _i: u64, tier: Tier) -> Script {
    let mut s = Script::new("C04", "dec");
    let zlib = rng.chance(1, 2);
    s.set("zlib", zlib as i64);
    s.set("clauses", CL_C04);
    s.set("probe", rng.chance(1, 6) as i64);
    let target = match rng.below(100) {
        x if x < 2 && tier == Tier::Thorough => rng.range(40_000, 120_000),
        x if x < 12 => rng.range(600, 4000),
        _ => rng.range(0, 400),
    };
    let kind = rng.below(100);
    let mut vs_opt: Option<ValidStream> = None;
    let stream: Vec<u8>;
    if kind < 20 {
        // grammar-built targeted violation
        let mut spec = foreign::ALL_SPECS[rng.usize_below(foreign::ALL_SPECS.len())];
        if spec.is_zlib() && !zlib {
            spec = Spec::Btype3;
        }
        let mut edge = 0usize;
        if rng.chance(1, 5) {
            // the violation sits right at the window edge (e.g. distance 32768 at output position 32767)
            edge = rng.pick(&[32767usize, 32767, 32766, 32760, 32768, 255, 4095]);
            if rng.chance(2, 3) {
                spec = Spec::DistBeforeStart;
            }
        }
        let cfg = GenCfg { zlib, target: if edge > 0 { target.min(1500) } else { target }, spec, max_dist: 32768, edge, alt258: false };
        let st = foreign::generate(rng, &cfg);
        s.set("spec", spec as i64 + 1);
        stream = st.bytes;
    } else if kind < 30 {
        let n = rng.range(0, 300);
        stream = rng.bytes(n);
        s.set("random_bytes", 1);
    } else {
        let vs = valid_stream(rng, zlib, target, 32768, None);
        let n = vs.bytes.len();
        if kind < 50 {
            // pure truncation
            if n > 0 {
                let k = match rng.below(4) {
                    0 => n - 1,
                    1 => rng.usize_below(n.min(8)),
                    2 => n - 1 - rng.usize_below(n.min(8)),
                    _ => rng.usize_below(n),
                };
                s.faults.push(vec![F_TRUNC, k as i64]);
                s.set("trunc_of_valid", 1);
            }
        } else if kind < 85 {
            s.faults.push(random_fault(rng, n));
        } else {
            for _ in 0..rng.range(2, 3) {
                s.faults.push(random_fault(rng, n));
            }
            if rng.chance(1, 3) && n > 0 {
                s.faults.push(vec![F_TRUNC, rng.usize_below(n) as i64]);
            }
        }
        stream = vs.bytes.clone();
        vs_opt = Some(vs);
    }
    let e = pick_entry(rng, &[(0, 40), (10, 25), (1, 20), (2, 8), (3, 7)]);
    let n_in = stream.len() + 8;
    let premise_valid = s.c("trunc_of_valid") != 0;
    set_entry(&mut s, rng, e, if premise_valid { vs_opt.as_ref() } else { None }, zlib, n_in);
    if e == 10 && !premise_valid {
        // any ring size 2^8..2^17 for mutated streams; the model applies ring semantics
        let bits = if rng.chance(1, 2) { 15 } else { rng.range(8, 17) };
        s.set("ring_bits", bits as i64);
    }
    if e == 1 {
        s.set("first_finish", 0);
        if s.ops.len() == 1 && s.ops[0].get(2) == Some(&4) {
            let style = rng.next_u64();
            s.ops = gen::stream_ops(rng, n_in, style, &[0, 0, 1, 2, 5]);
        }
    }
    s.set("hasmore", match rng.below(20) {
        0 | 1 | 2 => 1,
        _ => 0,
    });
    if e == 1 || e == 2 || e == 3 {
        s.set("hasmore", 0);
    }
    let _ = vs_opt;
    s.set_blob("stream", stream);
    add_dims(rng, &mut s, premise_valid, true);
    s
}

// ------------------------------------------------------------------------------------------------
// C06
// ------------------------------------------------------------------------------------------------

fn c_entry_script(rng: &mut Rng, prop: &str, zlib: bool, vs: &ValidStream, tail: Option<Vec<i64>>) -> Script {
    // the same stream through mz_inflate (family 1) or tinfl_decompress (family 5) of the C shim
    let mut s = Script::new(prop, "cabi");
    let fam = rng.pick(&[1i64, 5]);
    s.set("family", fam);
    s.set("zlib", zlib as i64);
    let mut total = vs.bytes.len();
    if let Some(t) = tail {
        total += t[2] as usize;
        s.faults.push(t);
        s.set("enc_len", vs.enc_len as i64);
    } else {
        s.set("expect_valid", 1);
    }
    let style = rng.next_u64();
    if fam == 1 {
        s.set("init1", rng.chance(1, 3) as i64);
        s.ops = gen::stream_ops(rng, total + 8, style, &[0, 0, 0, 1, 2]);
    } else {
        let ring = rng.chance(1, 2);
        s.set("mode", ring as i64);
        s.set("ring_bits", 15);
        s.set("flat_cap", (vs.plain_len + rng.pick(&[1usize, 2, 300])) as i64);
        s.set("plain_len", vs.plain_len as i64);
        s.ops = gen::core_ops(rng, total + 4, style);
    }
    s.set_blob("stream", vs.bytes.clone());
    s
}

pub fn exec_dec_or_cabi(s: &Script, st: &mut crate::script::Stats) -> Result<crate::runner::RunInfo, crate::script::Violation> {
    match s.scen.as_str() {
        "cabi" => crate::cabi::exec(s, st),
        _ => crate::dec::exec(s, st),
    }
}

pub fn gen_c06(rng: &mut Rng, _i: u64, tier: Tier) -> Script {
    if rng.chance(15, 100) {
        let zlib = rng.chance(1, 2);
        let target = small_target(rng, tier).min(20_000);
        let vs = valid_stream(rng, zlib, target, 32768, None);
        let tl = rng.range(0, 64);
        let tailf = vec![F_TAIL, rng.below(1 << 30) as i64, tl as i64, rng.below(4) as i64];
        return c_entry_script(rng, "C06", zlib, &vs, Some(tailf));
    }
    let mut s = Script::new("C06", "dec");
    let zlib = rng.chance(1, 2);
    s.set("zlib", zlib as i64);
    s.set("clauses", CL_C06);
    let target = small_target(rng, tier);
    let vs = valid_stream(rng, zlib, target, 32768, None);
    let n = vs.enc_len;
    s.set("enc_len", n as i64);
    let tl = match rng.below(6) {
        0 => 0,
        1 => rng.range(1, 4),
        2 => rng.range(5, 9),
        _ => rng.range(0, 64),
    };
    s.faults.push(vec![F_TAIL, rng.below(1 << 30) as i64, tl as i64, rng.below(4) as i64]);
    let total = n + tl;
    let e = pick_entry(rng, &[(0, 35), (10, 30), (1, 35)]);
    set_entry(&mut s, rng, e, Some(&vs), zlib, total);
    s.set("hasmore", rng.pick(&[0i64, 0, 0, 1]));
    // cut points around the end of the stream
    if rng.chance(2, 3) {
        let d = rng.range(0, 18) as i64 - 9;
        let first = (n as i64 + d).clamp(0, total as i64);
        let k = if e == 1 { 3 } else { 2 };
        let mk = |a: i64, rng: &mut Rng| -> Vec<i64> {
            if k == 3 {
                vec![a, rng.pick(&[1i64, 7, 300, 5000, 70000]), rng.pick(&[0i64, 0, 2])]
            } else {
                vec![a, rng.pick(&[-1i64, -1, 1, 259, 4000])]
            }
        };
        let mut ops = Vec::new();
        if rng.chance(1, 2) && first > 3 {
            let a = rng.range(0, first as usize) as i64;
            ops.push(mk(a, rng));
            ops.push(mk(first - a, rng));
        } else {
            ops.push(mk(first, rng));
        }
        // then byte by byte for a while
        for _ in 0..rng.range(0, 12) {
            ops.push(mk(1, rng));
        }
        if s.c("first_finish") == 0 {
            s.ops = ops;
        }
    }
    s.set_blob("stream", vs.bytes);
    add_dims(rng, &mut s, true, true);
    s
}

// ------------------------------------------------------------------------------------------------
// C07
// ------------------------------------------------------------------------------------------------

fn some_stream(rng: &mut Rng, zlib: bool, target: usize, s: &mut Script) -> (Vec<u8>, Option<ValidStream>) {
    match rng.below(100) {
        x if x < 50 => {
            let vs = valid_stream(rng, zlib, target, 32768, None);
            (vs.bytes.clone(), Some(vs))
        }
        x if x < 85 => {
            let vs = valid_stream(rng, zlib, target, 32768, None);
            let n = vs.bytes.len();
            for _ in 0..rng.range(1, 2) {
                s.faults.push(random_fault(rng, n));
            }
            if rng.chance(1, 4) && n > 0 {
                s.faults.push(vec![F_TRUNC, rng.usize_below(n) as i64]);
            }
            (vs.bytes, None)
        }
        _ => {
            let n = rng.range(0, target.min(300).max(1));
            (rng.bytes(n), None)
        }
    }
}

pub fn gen_c07(rng: &mut Rng, i: u64, tier: Tier) -> Script {
    ALLOW_ALT258.with(|c| c.set(true));
    let s = gen_c07_inner(rng, i, tier);
    ALLOW_ALT258.with(|c| c.set(false));
    s
}

fn gen_c07_inner(rng: &mut Rng, _i: u64, tier: Tier) -> Script {
    let mut s = Script::new("C07", "dec");
    let zlib = rng.chance(1, 2);
    s.set("zlib", zlib as i64);
    s.set("clauses", CL_C07);
    s.set("probe", rng.chance(1, 4) as i64);
    let sweep = rng.chance(6, 10);
    // two-dimensional sweeps (pairs of cuts, cut x budget) on very short streams
    let sweep2 = sweep && rng.chance(1, 8);
    let target = if sweep2 { rng.range(0, 70) } else if sweep { rng.range(0, if tier == Tier::Thorough { 900 } else { 500 }) } else { small_target(rng, tier) };
    let (stream, vs) = some_stream(rng, zlib, target, &mut s);
    let n_in = stream.len() + 8;
    if sweep && stream.len() <= 700 {
        s.set("entry", 0);
        let ring = rng.chance(1, 2);
        s.set("mode", ring as i64);
        if ring {
            let minb = vs.as_ref().map(|v| min_ring_bits(v.max_dist, zlib, v.cinfo)).unwrap_or(8);
            let bits = if rng.chance(1, 3) { 15 } else { rng.range(minb.min(15), 15) };
            s.set("ring_bits", bits as i64);
            s.set("ringfill", rng.below(1 << 30) as i64);
        } else {
            s.set("cap_extra", rng.pick(&[1i64, 2, 259, 600]));
        }
        match rng.below(10) {
            0..=3 => s.set("family", 1),
            4 | 5 => {
                s.set("family", 2);
                s.set("sweep_chunk", rng.pick(&[1i64, 1, 1, 2, 3, 5, 13, 14]));
            }
            6 | 7 => {
                s.set("family", 3);
                let pl = vs.as_ref().map(|v| v.plain_len).unwrap_or(500);
                s.set("sweep_step", (pl as i64 / 400).max(1));
            }
            _ => {
                s.set("family", 5);
                s.set("sweep_budget", rng.pick(&[1i64, 1, 2, 3, 4, 5, 7, 257, 258, 259, 260]));
            }
        }
        if sweep2 && stream.len() <= 90 {
            if ring && s.c("ring_bits") < 7 {
                // a 2-byte ring multiplies the number of calls of every grid point
                s.set("ring_bits", 7);
            }
            if rng.chance(1, 2) {
                s.set("family", 6);
            } else {
                s.set("family", 7);
                let pl = vs.as_ref().map(|v| v.plain_len).unwrap_or(200);
                s.set("sweep_step", (pl as i64 / 150).max(1));
            }
        }
        s.set("hasmore", rng.pick(&[0i64, 0, 0, 0, 1]));
    } else if stream.len() > 700 && rng.chance(1, 3) {
        // larger stream: a window of one-byte deliveries (around the end, the start, or anywhere)
        s.set("entry", 0);
        let ring = rng.chance(1, 2);
        s.set("mode", ring as i64);
        if ring {
            let minb = vs.as_ref().map(|v| min_ring_bits(v.max_dist, zlib, v.cinfo)).unwrap_or(8).max(8);
            let bits = if rng.chance(1, 3) { 15 } else { rng.range(minb.min(16), 16) };
            s.set("ring_bits", bits as i64);
            s.set("ringfill", rng.below(1 << 30) as i64);
        } else {
            s.set("cap_extra", rng.pick(&[1i64, 2, 259, 600]));
        }
        s.set("family", 8);
        let n = stream.len();
        let wl = rng.pick(&[300usize, 2000, 2000, 6000]).min(n);
        let from = match rng.below(4) {
            0 => 0,
            1 => n - wl,
            _ => rng.usize_below(n - wl + 1),
        };
        s.set("sweep_from", from as i64);
        s.set("sweep_window", wl as i64);
        s.set("hasmore", rng.pick(&[0i64, 0, 0, 1]));
    } else {
        let e = pick_entry(rng, &[(0, 36), (10, 36), (1, 18), (3, 10)]);
        set_entry(&mut s, rng, e, vs.as_ref(), zlib, n_in);
        if e == 10 && vs.is_none() {
            let bits = if rng.chance(1, 2) { 15 } else { rng.range(8, 17) };
            s.set("ring_bits", bits as i64);
        }
        if e == 3 {
            // the slice-iterator helper: the partition into slices is the schedule (several slices wanted)
            if s.ops.len() < 2 {
                s.ops = vec![vec![rng.range(1, 9) as i64], vec![rng.range(1, 400) as i64]];
            }
            if s.c("cap_extra") < 1 {
                s.set("cap_extra", 1);
            }
        }
        if e == 1 {
            s.set("first_finish", 0);
            if s.ops.len() == 1 && s.ops[0].get(2) == Some(&4) {
                let style = rng.next_u64();
                s.ops = gen::stream_ops(rng, n_in, style, &[0, 0, 1, 2, 5]);
            }
            // Finish once everything has been delivered (valid streams: the wrapper's result must still equal
            // the one-call run of the core decoder)
            let valid_stream = vs.is_some() && s.faults.is_empty();
            s.set("finish_tail", (valid_stream && rng.chance(1, 2)) as i64);
        }
        s.set("hasmore", match rng.below(20) {
            0 | 1 | 2 => 1,
            _ => 0,
        });
        if e == 1 || e == 3 {
            s.set("hasmore", 0);
        }
    }
    s.set_blob("stream", stream);
    let valid = vs.is_some() && s.faults.is_empty();
    add_dims(rng, &mut s, valid, true);
    s
}

// ------------------------------------------------------------------------------------------------
// C08
// ------------------------------------------------------------------------------------------------

pub fn gen_c08(rng: &mut Rng, i: u64, tier: Tier) -> Script {
    ALLOW_ALT258.with(|c| c.set(true));
    let s = gen_c08_inner(rng, i, tier);
    ALLOW_ALT258.with(|c| c.set(false));
    s
}

fn gen_c08_inner(rng: &mut Rng, _i: u64, _tier: Tier) -> Script {
    let mut s = Script::new("C08", "dec");
    let zlib = rng.chance(1, 2);
    s.set("zlib", zlib as i64);
    s.set("clauses", CL_C08);
    let target = match rng.below(100) {
        x if x < 4 => rng.range(20_000, 60_000),
        x if x < 25 => rng.range(600, 6000),
        _ => rng.range(0, 600),
    };
    if rng.chance(15, 100) {
        // size-limited vector functions
        let vs = valid_stream(rng, zlib, target, 32768, None);
        let n = vs.plain_len as i64;
        s.set("entry", 2);
        let lim = match rng.below(7) {
            0 => 0,
            1 => (n - 1).max(0),
            2 => n,
            3 => n + 1,
            4 => 2 * n,
            5 => i64::MAX,
            _ => rng.range(0, (2 * n as usize).max(1)) as i64,
        };
        s.set("limit", lim);
        s.set_blob("stream", vs.bytes);
        return s;
    }
    s.set("canary", 1);
    s.set("entry", 0);
    let sweep = rng.chance(1, 6);
    let target = if sweep { rng.range(0, 500) } else { target };
    let (stream, vs) = if rng.chance(8, 10) {
        let vs = valid_stream(rng, zlib, target, 32768, None);
        (vs.bytes.clone(), Some(vs))
    } else {
        let mut tmp = Script::new("C08", "dec");
        let r = some_stream(rng, zlib, target, &mut tmp);
        s.faults = tmp.faults;
        r
    };
    let n_in = stream.len() + 4;
    let ring = rng.chance(1, 2);
    s.set("mode", ring as i64);
    if ring {
        let minb = vs.as_ref().map(|v| min_ring_bits(v.max_dist, zlib, v.cinfo)).unwrap_or(8);
        let bits = if rng.chance(1, 3) { 15 } else { rng.range(minb.min(16), 16) };
        s.set("ring_bits", bits as i64);
        s.set("ringfill", rng.below(1 << 30) as i64);
    } else {
        // spare territory after the data, or (30 %) a slice that ends 0..3 bytes after it (copy-loop tails)
        let ce = if rng.chance(3, 10) { rng.range(0, 3) } else { rng.range(300, 1000) };
        s.set("cap_extra", ce as i64);
    }
    // budgets biased to 0..3 and the copy-loop corners
    let style = 4 * rng.pick(&[1u64, 2, 2]) + rng.pick(&[1u64, 2, 2, 3]);
    let mut ops = gen::core_ops(rng, n_in, style);
    for o in ops.iter_mut() {
        if rng.chance(1, 4) {
            o[1] = rng.pick(&[1i64, 2, 3, 4, 5, 6, 7, 8, 9, 257, 258, 259, 260, 261]);
        }
    }
    s.ops = ops;
    if sweep && stream.len() <= 700 {
        // every first-call budget, or a constant per-call budget, with the canary oracle on
        s.ops.clear();
        if rng.chance(1, 2) {
            s.set("family", 3);
            let pl = vs.as_ref().map(|v| v.plain_len).unwrap_or(500);
            s.set("sweep_step", (pl as i64 / 500).max(1));
        } else {
            s.set("family", 5);
            s.set("sweep_budget", rng.pick(&[1i64, 2, 3, 4, 5, 6, 7, 9, 63, 137, 257, 258, 259]));
        }
    }
    s.set("hasmore", rng.pick(&[0i64, 0, 0, 1]));
    s.set_blob("stream", stream);
    let valid = vs.is_some() && s.faults.is_empty();
    add_dims(rng, &mut s, valid, true);
    s
}

// ------------------------------------------------------------------------------------------------
// C09 (decoder side; the producer side lives in props_pipe)
// ------------------------------------------------------------------------------------------------

pub fn gen_c09_dec(rng: &mut Rng, i: u64, tier: Tier) -> Script {
    let mut s = Script::new("C09", "dec");
    s.set("zlib", 1);
    s.set("clauses", CL_C09);
    let sweeps = if tier == Tier::Thorough { 66 } else { 22 };
    if i < sweeps {
        // deterministic family: all 65 536 headers x {flat, ring 2^8 .. 2^17}
        let mode_ix = i % 11;
        let cfg = GenCfg { zlib: true, target: rng.range(1, 120), spec: Spec::None, max_dist: 200, edge: 0, alt258: false };
        let st = foreign::generate(rng, &cfg);
        s.set("entry", 0);
        s.set("family", 4);
        if mode_ix == 0 {
            s.set("mode", 0);
        } else {
            s.set("mode", 1);
            s.set("ring_bits", 7 + mode_ix as i64);
            s.set("ringfill", rng.below(1 << 30) as i64);
        }
        if i >= 11 {
            // chunked delivery: header split from the body, tiny pieces
            s.ops = vec![vec![1, -1], vec![1, -1], vec![rng.range(0, 3) as i64, -1]];
        }
        s.set_blob("stream", st.bytes);
        return s;
    }
    let target = match rng.below(10) {
        0 => rng.range(600, 5000),
        _ => rng.range(0, 400),
    };
    let mut vs = valid_stream(rng, true, target, 32768, None);
    if rng.chance(1, 25) {
        // a frame whose plaintext has a special Adler-32 (0, 1, a zero half): the trailer is still verified
        let (ta, tb) = gen::adler_special(rng);
        let pl = rng.pick(&[0usize, 20, 400]);
        let p = gen::adler_target(rng, ta, tb, pl);
        let bytes = miniz_oxide::deflate::compress_to_vec_zlib(&p, rng.pick(&[0u8, 1, 6]));
        vs = ValidStream { enc_len: bytes.len(), plain_len: p.len(), max_dist: 32768, cinfo: 7, bytes, foreign: false };
    }
    let n = vs.bytes.len();
    match rng.below(10) {
        0..=4 => {
            // trailer corruption
            let off = n - 1 - rng.usize_below(4);
            if rng.chance(1, 2) {
                s.faults.push(vec![F_FLIP, (off * 8 + rng.usize_below(8)) as i64]);
            } else {
                s.faults.push(vec![F_SET, off as i64, rng.below(256) as i64]);
            }
        }
        5..=7 => {
            // body change (often keeps the deflate data valid when it lands in a stored payload)
            let off = 2 + rng.usize_below((n - 6).max(1));
            s.faults.push(vec![F_FLIP, (off * 8 + rng.usize_below(8)) as i64]);
        }
        8 => {
            // header bytes
            s.faults.push(vec![F_SET, rng.usize_below(2) as i64, rng.below(256) as i64]);
        }
        _ => {}
    }
    s.set("ignore_adler", rng.chance(1, 4) as i64);
    let e = pick_entry(rng, &[(0, 30), (10, 25), (1, 25), (2, 10), (3, 10)]);
    set_entry(&mut s, rng, e, Some(&vs), true, n + 4);
    if e == 2 {
        s.set("ignore_adler", 0);
    }
    s.set("hasmore", 0);
    s.set_blob("stream", vs.bytes);
    if e == 10 && rng.chance(1, 6) {
        s.set("ring_bits", rng.range(16, 17) as i64);
    }
    let valid = s.faults.is_empty();
    add_dims(rng, &mut s, valid, false);
    s
}

const ASSUME: &[&str] = &[
    "reference inflater (harness, written from RFC 1951/1950; cross-checked against system zlib 1.2.13 in ./check selftest)",
    "foreign DEFLATE writer ground truth (checked against the reference inflater on every generated stream)",
    "x86-64 little-endian build only (64-bit bit buffer variant of the decoder)",
    "seeded sampling of schedules/faults: a clean batch is evidence, not proof",
];

pub const SHRINK_DEC: &[&str] = &["probe"];

pub fn defs() -> Vec<CheckDef> {
    vec![
        CheckDef {
            id: "C03",
            level: "exploration",
            runs_quick: 2_000_000,
            runs_thorough: 40_000_000,
            block: 512,
            gen: gen_c03,
            exec: exec_dec_or_cabi,
            rule: "run = (valid stream from the foreign grammar-driven encoder or from the crate's compressor) x decoder entry point {core flat, core ring 2^k, inflate(), decompress_to_vec*, slice-iter} x seeded delivery/grant schedule; non-trivial = the run had at least one suspension (input-starved or output-full return) or several input slices; distinct = distinct shape fingerprint (entry point, mode, size classes of stream and of each op, foreign-encoder features used)",
            shrink_cfg: SHRINK_DEC,
            shrink_blobs: false,
            assumptions: ASSUME,
        },
        CheckDef {
            id: "C04",
            level: "fault_enumeration",
            runs_quick: 3_000_000,
            runs_thorough: 60_000_000,
            block: 512,
            gen: gen_c04,
            exec: crate::dec::exec,
            rule: "run = valid stream + 1..3 channel faults (truncate, bit flip, byte set, insert, delete, duplicate, swap) | grammar-built targeted RFC violation (20 kinds) | random bytes, delivered under a seeded schedule to {core flat, core ring, inflate(), to_vec, slice-iter}; verdict compared with the reference inflater (ring semantics in ring mode); non-trivial = a fault fired or a suspension happened; distinct = shape fingerprint incl. fault kinds",
            shrink_cfg: SHRINK_DEC,
            shrink_blobs: false,
            assumptions: ASSUME,
        },
        CheckDef {
            id: "C06",
            level: "fault_enumeration",
            runs_quick: 2_000_000,
            runs_thorough: 40_000_000,
            block: 512,
            gen: gen_c06,
            exec: exec_dec_or_cabi,
            rule: "run = valid stream S + trailing bytes T (0..64; random / 0x00 / 0xFF / looks like another stream) delivered with cuts 0..9 bytes around |S| and random schedules to {core flat, core ring, inflate() None/Finish}; oracle: total consumed == |S| (generator ground truth == reference inflater), S alone also completes; non-trivial = trailing bytes present or suspension; distinct = shape fingerprint",
            shrink_cfg: SHRINK_DEC,
            shrink_blobs: false,
            assumptions: ASSUME,
        },
        CheckDef {
            id: "C07",
            level: "exploration",
            runs_quick: 400_000,
            runs_thorough: 8_000_000,
            block: 128,
            gen: gen_c07,
            exec: crate::dec::exec,
            rule: "run = stream (valid / mutated / random) x mode (flat, ring 2^k, inflate()) x schedule family: every single cut point, k-byte feeding, every first-call output budget, constant per-call budget (deterministic sweeps on streams <= 700 bytes) or a seeded random partition with per-call budgets; oracle = one-call run of the same real decoder (output, final verdict, total consumed); non-trivial = at least one suspension; distinct = shape fingerprint (family, mode, size classes, fault kinds)",
            shrink_cfg: SHRINK_DEC,
            shrink_blobs: false,
            assumptions: ASSUME,
        },
        CheckDef {
            id: "C08",
            level: "exploration",
            runs_quick: 3_000_000,
            runs_thorough: 60_000_000,
            block: 512,
            gen: gen_c08,
            exec: crate::dec::exec,
            rule: "run = stream x (flat slice with spare territory | ring 2^k) painted with a seeded pattern x per-call (deliver, budget) schedule biased to budgets 0..9 and 257..261; after every call: all bytes outside [out_pos, out_pos+written) unchanged, written <= granted, bytes equal the model's, HasMoreOutput => region full, NeedsMoreInput => all input consumed; 15 % of runs exercise decompress_to_vec*_with_limit with limits {0, n-1, n, n+1, 2n, max}; non-trivial = at least one suspension or a limit case; distinct = shape fingerprint",
            shrink_cfg: SHRINK_DEC,
            shrink_blobs: false,
            assumptions: ASSUME,
        },
    ]
}

#[cfg(test)]
mod tests {
    use super::*;
    #[test]
    fn sized_streams_end_near_a_power_of_two() {
        let mut r = Rng::new(11);
        let mut near = 0;
        for _ in 0..300 {
            let zl = r.chance(1, 2);
            let s = sized_stream(&mut r, zl);
            let defl_end = if zl { s.bytes.len() - 4 } else { s.bytes.len() };
            let a = defl_end % 256;
            let b = (defl_end - if zl { 2 } else { 0 }) % 256;
            if a == 0 || a >= 248 || b == 0 || b >= 248 {
                near += 1;
            }
        }
        assert!(near >= 290, "only {} of 300 sized streams end within 8 bytes below a multiple of 256", near);
    }
}
