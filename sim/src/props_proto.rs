//! Generators for the protocol properties C13 (inflate()) and C14 (deflate()).

use crate::dec::{F_FLIP, F_TAIL, F_TRUNC};
use crate::gen;
use crate::props_dec::{random_fault, valid_stream};
use crate::props_pipe::base_cfg;
use crate::rng::Rng;
use crate::runner::{CheckDef, Tier};
use crate::script::Script;

/// Depth of the exhaustive history enumeration and number of base streams per tier.
fn enum_plan(tier: Tier) -> (u32, u64) {
    match tier {
        Tier::Quick => (3, 3),
        Tier::Thorough => (4, 2),
    }
}

fn enum_total(depth: u32) -> u64 {
    (1..=depth).map(|d| 64u64.pow(d)).sum()
}

/// Decode history number h (0-based over all depths 1..=depth) into letters 0..63.
fn decode_history(mut h: u64, depth: u32) -> Vec<u64> {
    let mut d = 1;
    while d <= depth {
        let c = 64u64.pow(d);
        if h < c {
            break;
        }
        h -= c;
        d += 1;
    }
    let mut v = Vec::new();
    for _ in 0..d {
        v.push(h % 64);
        h /= 64;
    }
    v
}

fn stream_for_enum(k: u64, s: &mut Script) -> Vec<u8> {
    // fixed base streams: independent of the run's PRNG so that the enumeration is the same set of
    // histories over the same streams for every index
    let mut r = Rng::new(0xC13_0000 + k / 4);
    let zlib = (k / 4) % 2 == 0;
    s.set("fmt", if zlib { 1 } else { 0 });
    let vs = valid_stream(&mut r, zlib, 40, 32768, None);
    let n = vs.bytes.len();
    match k % 4 {
        0 => {}
        1 => {
            s.faults.push(vec![F_TRUNC, (n as i64 * 2 / 3).max(1)]);
            s.set("trunc_of_valid", 1);
        }
        2 => {
            s.faults.push(vec![F_FLIP, (n as i64 / 2) * 8 + 3]);
        }
        _ => {
            s.faults.push(vec![F_TAIL, 99, 5, 0]);
        }
    }
    vs.bytes
}

pub fn gen_c13(rng: &mut Rng, i: u64, tier: Tier) -> Script {
    let mut s = Script::new("C13", "inflate-proto");
    let (depth, nstreams) = enum_plan(tier);
    let per = enum_total(depth);
    if i < per * nstreams {
        let k = i / per;
        let letters = decode_history(i % per, depth);
        // streams 0..: kind cycles valid / truncated / corrupt / trailing
        let bytes = stream_for_enum(k * 5 % 8 + k, &mut s);
        for l in letters {
            let inl = [0i64, 1, 2, 1 << 20][(l % 4) as usize];
            let outl = [0i64, 1, 3, 70000][((l / 4) % 4) as usize];
            let fl = [0i64, 2, 4, 3][((l / 16) % 4) as usize];
            s.ops.push(vec![inl, outl, fl]);
        }
        s.set("enumerated", 1);
        s.set("tail_grant", [4096i64, 1, 3][(i % 3) as usize]);
        s.set_blob("stream", bytes);
        return s;
    }
    let fmtv = rng.pick(&[0i64, 1, 1, 2]);
    s.set("fmt", fmtv);
    let zlib = fmtv != 0;
    let target = match rng.below(20) {
        0 => rng.range(30_000, 120_000),
        1 | 2 | 3 => rng.range(600, 5000),
        _ => rng.range(0, 500),
    };
    let vs = valid_stream(rng, zlib, target, 32768, None);
    let n = vs.bytes.len();
    match rng.below(10) {
        0..=3 => {}
        4 | 5 => {
            if n > 0 {
                s.faults.push(vec![F_TRUNC, rng.usize_below(n) as i64]);
                s.set("trunc_of_valid", 1);
            }
        }
        6 | 7 => {
            s.faults.push(random_fault(rng, n));
            if rng.chance(1, 3) {
                s.faults.push(random_fault(rng, n));
            }
        }
        _ => {
            s.faults.push(vec![F_TAIL, rng.below(1 << 30) as i64, rng.range(1, 40) as i64, rng.below(4) as i64]);
        }
    }
    let style = rng.next_u64();
    // any flush on any call, Finish not sticky, Full included
    let flushes: &[i64] = match rng.below(4) {
        0 => &[0],
        1 => &[0, 0, 0, 1, 2, 5],
        2 => &[0, 0, 0, 0, 2, 4, 3],
        _ => &[0, 1, 2, 3, 4, 5],
    };
    s.ops = gen::stream_ops(rng, n + 8, style, flushes);
    if vs.plain_len % 8 == 3 {
        // exact-fit family: the first call is offered the whole stream and granted exactly (or one byte less
        // than) the room the plaintext needs, with Finish / None / Sync; the drawn schedule follows
        let (d, fl) = [(0i64, 4i64), (0, 0), (-1, 4), (0, 2)][(vs.plain_len / 8) % 4];
        s.ops.insert(0, vec![(n + 8) as i64, (vs.plain_len as i64 + d).max(0), fl]);
        s.set("exact_fit_first_call", 1);
    }
    s.set("tail_grant", match rng.below(6) {
        0 => 1,
        1 => 3,
        2 => rng.range(2, 300) as i64,
        _ => 4096,
    });
    if rng.chance(1, 10) {
        let tp = rng.range(50, 3000);
        let mut pv = valid_stream(rng, zlib, tp, 32768, None);
        match rng.below(6) {
            0 => {
                // the earlier stream was corrupt (targeted RFC violation, e.g. table sizes beyond the alphabet)
                let spec = crate::foreign::ALL_SPECS[rng.usize_below(crate::foreign::ALL_SPECS.len())];
                if !spec.is_zlib() || zlib {
                    let cfg = crate::foreign::GenCfg { zlib, target: rng.range(0, 400), spec, max_dist: 32768, edge: 0, alt258: false };
                    pv.bytes = crate::foreign::generate(rng, &cfg).bytes;
                }
            }
            1 => {
                let f = random_fault(rng, pv.bytes.len());
                let mut tmp = crate::script::Stats::default();
                pv.bytes = crate::dec::apply_faults(&pv.bytes, &[f], &mut tmp);
            }
            _ => {}
        }
        s.set("prelude", rng.range(1, 8) as i64);
        let only_cut_or_tail = s.faults.iter().all(|f| f[0] == F_TRUNC || f[0] == F_TAIL);
        s.set("prelude_policy", if only_cut_or_tail { rng.pick(&[0i64, 1, 2, 2, 3]) } else { rng.pick(&[0i64, 1, 3]) });
        s.set_blob("prelude_stream", pv.bytes);
    }
    s.set_blob("stream", vs.bytes);
    s
}

pub fn gen_c14(rng: &mut Rng, i: u64, tier: Tier) -> Script {
    let mut s = Script::new("C14", "deflate-proto");
    let (depth, _) = enum_plan(tier);
    let depth = depth.min(3);
    let nstreams = if tier == Tier::Quick { 2 } else { 8 };
    let per = enum_total(depth);
    if i < per * nstreams {
        let k = i / per;
        let letters = decode_history(i % per, depth);
        let mut r = Rng::new(0xC14_0000 + k);
        base_cfg(&mut r, &mut s, false);
        s.set("window_bits", 15);
        let plain = gen::plaintext(&mut r, [0usize, 7, 90, 300][(k % 4) as usize]);
        for l in letters {
            let inl = [0i64, 1, 1 << 20, 5][(l % 4) as usize];
            let outl = [0i64, 1, 5, 70000][((l / 4) % 4) as usize];
            let fl = [0i64, 2, 3, 4][((l / 16) % 4) as usize];
            s.ops.push(vec![inl, outl, fl]);
        }
        s.set("enumerated", 1);
        s.set("tail_grant", [4096i64, 1, 5][(i % 3) as usize]);
        s.set_blob("plain", plain);
        return s;
    }
    let j = i - per * nstreams;
    if j < 16 {
        // the compressor's self-initiated block flush in every phase (see props_pipe::phase_sweep_script), driven
        // through deflate(): every other one of the 32 phase scripts
        let mut ps = crate::props_pipe::phase_sweep_script(rng, 2 * j + 1, "C14");
        ps.set("driver", 2);
        ps.set("clauses", crate::pipe::PC_C02);
        if ps.ops[0][1] < 1 {
            ps.ops[0][1] = 1;
        }
        return ps;
    }
    base_cfg(rng, &mut s, true);
    if s.c("setter") != 0 && s.c("pre_reset") != 0 {
        s.set("pre_reset", 0);
    }
    if rng.chance(1, 20) {
        let plain = crate::props_pipe::boundary_family(rng, &mut s);
        // MZFlush values only
        for o in s.ops.iter_mut() {
            if o[2] > 5 {
                o[2] = 2;
            }
            if o[1] == 0 {
                o[1] = 1;
            }
        }
        s.set("tail_grant", rng.pick(&[1000i64, 512, 4096, 31752, 64]));
        s.set_blob("plain", plain);
        return s;
    }
    let n = match rng.below(20) {
        0 => rng.range(30_000, 200_000),
        1 | 2 | 3 => rng.range(600, 8000),
        _ => rng.range(0, 600),
    };
    let plain = gen::plaintext(rng, n);
    let style = rng.next_u64();
    let flushes: &[i64] = match rng.below(4) {
        0 => &[0],
        1 => &[0, 0, 1, 2, 3, 5],
        2 => &[0, 0, 0, 2, 3, 4],
        _ => &[0, 1, 2, 3, 4, 5],
    };
    let mut ops = gen::stream_ops(rng, n, style, flushes);
    // output buffers smaller than one flush marker
    if rng.chance(1, 4) {
        for o in ops.iter_mut() {
            if rng.chance(1, 2) {
                o[1] = rng.range(1, 5) as i64;
            }
        }
    }
    s.ops = ops;
    s.set("tail_grant", match rng.below(6) {
        0 => 1,
        1 => 5,
        2 => rng.range(2, 300) as i64,
        _ => 4096,
    });
    s.set_blob("plain", plain);
    s
}

fn exec_c14(s: &Script, st: &mut crate::script::Stats) -> Result<crate::runner::RunInfo, crate::script::Violation> {
    match s.scen.as_str() {
        "pipe" => crate::pipe::exec(s, st),
        _ => crate::proto::exec_deflate_proto(s, st),
    }
}

const ASSUME: &[&str] = &[
    "reference inflater (harness; cross-checked against system zlib in ./check selftest)",
    "protocol invariants are those spelled out in the property statement; exact per-call statuses of the normal path are not modelled",
    "x86-64 only; seeded sampling beyond the enumerated depth",
];

pub fn defs() -> Vec<CheckDef> {
    vec![
        CheckDef {
            id: "C13",
            level: "exploration",
            runs_quick: 2_500_000,
            runs_thorough: 60_000_000,
            block: 2048,
            gen: gen_c13,
            exec: crate::proto::exec_inflate_proto,
            rule: "runs 0..E-1 enumerate EVERY call history of depth <= 3 (quick; 4 thorough) over the alphabet (input chunk 0/1/2/rest) x (output 0/1/3/large) x (flush None/Sync/Finish/Full) on fixed short streams of the four kinds valid / truncated / corrupt / trailing bytes; the remaining runs are seeded random histories (<= 300 calls, any flush on any call) on streams up to 120 KiB, one in eight preceded by an exact-fit first call (whole stream offered, output = the plaintext length or one less); every history is followed by the canonical driver loop with 1 / 3 / random / 4096-byte grants; non-trivial = more than one call or a fault; distinct = shape fingerprint",
            shrink_cfg: &["tail_grant"],
            shrink_blobs: false,
            assumptions: ASSUME,
        },
        CheckDef {
            id: "C14",
            level: "exploration",
            runs_quick: 1_500_000,
            runs_thorough: 30_000_000,
            block: 2048,
            gen: gen_c14,
            exec: exec_c14,
            rule: "runs 0..E-1 enumerate EVERY call history of depth <= 3 over (chunk 0/1/5/rest) x (output 0/1/5/large) x (flush None/Sync/Full/Finish) on fixed inputs of 0/7/90/300 bytes; the remaining runs are seeded random histories (any MZFlush on any call, output buffers down to 1 byte, i.e. smaller than one flush marker) on inputs up to 200 KiB over all configurations; each history is followed by a Finish loop with 1 / 5 / random / 4096-byte grants; scripts with empty-output calls are executed a second time without them to show the absence of side effects; non-trivial = more than one call; distinct = shape fingerprint",
            shrink_cfg: &["tail_grant"],
            shrink_blobs: true,
            assumptions: ASSUME,
        },
    ]
}
