//! Foreign DEFLATE/zlib *writer*: grammar-driven, shares nothing with the crate, and deliberately
//! emits what miniz never does (DESIGN 2.4, Appendix A). Returns the bytes and, by construction,
//! the ground truth (plaintext, block boundaries, encoded length).

use crate::rng::Rng;

pub struct BitW {
    pub out: Vec<u8>,
    acc: u64,
    n: u32,
}

impl BitW {
    pub fn new() -> BitW {
        BitW { out: Vec::new(), acc: 0, n: 0 }
    }
    /// LSB-first field of n <= 32 bits.
    pub fn bits(&mut self, v: u32, n: u32) {
        debug_assert!(n <= 32);
        if n == 0 {
            return;
        }
        self.acc |= ((v as u64) & ((1u64 << n) - 1)) << self.n;
        self.n += n;
        while self.n >= 8 {
            self.out.push(self.acc as u8);
            self.acc >>= 8;
            self.n -= 8;
        }
    }
    /// Huffman code, most significant bit first (RFC 1951 3.1.1).
    pub fn huff(&mut self, code: u32, len: u32) {
        for i in (0..len).rev() {
            self.bits((code >> i) & 1, 1);
        }
    }
    pub fn bitpos(&self) -> usize {
        self.out.len() * 8 + self.n as usize
    }
    pub fn align(&mut self) {
        if self.n > 0 {
            self.out.push(self.acc as u8);
            self.acc = 0;
            self.n = 0;
        }
    }
    /// Pad to byte with the given filler bits (decoders must ignore them).
    pub fn align_with(&mut self, filler: u32) {
        if self.n > 0 {
            let k = 8 - self.n;
            self.bits(filler, k);
        }
    }
    pub fn bytes(&mut self, b: &[u8]) {
        debug_assert!(self.n == 0);
        self.out.extend_from_slice(b);
    }
    pub fn finish(mut self) -> Vec<u8> {
        self.align();
        self.out
    }
}

/// Canonical codes from lengths (RFC 1951 3.2.2).
pub fn canon(lens: &[u8]) -> Vec<u32> {
    let mut bl = [0u32; 17];
    for &l in lens {
        bl[l as usize] += 1;
    }
    bl[0] = 0;
    let mut next = [0u32; 17];
    let mut code = 0u32;
    for b in 1..=16 {
        code = (code + bl[b - 1]) << 1;
        next[b] = code;
    }
    let mut codes = vec![0u32; lens.len()];
    for (i, &l) in lens.iter().enumerate() {
        if l != 0 {
            codes[i] = next[l as usize];
            next[l as usize] += 1;
        }
    }
    codes
}

/// Kraft-exact random multiset of n >= 2 code lengths, each <= maxl (Appendix A.1).
fn random_depths(rng: &mut Rng, n: usize, maxl: u8, deep_bias: u64) -> Vec<u8> {
    debug_assert!(n >= 2 && n <= (1usize << maxl));
    let mut leaves: Vec<u8> = vec![0];
    while leaves.len() < n {
        // candidates: leaves with depth < maxl
        let mut idx = None;
        if deep_bias >= 200 {
            // "spine then bushy bottom": split only leaves at depth >= floor while such exist (many 11..15 bit
            // codes, i.e. a big overflow tree in table-driven decoders), else the deepest splittable one
            let floor = (deep_bias - 200) as u8;
            let cnt = leaves.iter().filter(|&&d| d < maxl && d >= floor).count();
            if cnt > 0 {
                let mut k = rng.usize_below(cnt);
                for (i, &d) in leaves.iter().enumerate() {
                    if d < maxl && d >= floor {
                        if k == 0 {
                            idx = Some(i);
                            break;
                        }
                        k -= 1;
                    }
                }
            } else {
                let mut best = 0u8;
                for (i, &d) in leaves.iter().enumerate() {
                    if d < maxl && (idx.is_none() || d > best) {
                        best = d;
                        idx = Some(i);
                    }
                }
            }
        } else if rng.chance(deep_bias, 100) {
            // prefer the deepest splittable leaf (spine-like tree => long codes)
            let mut best = 0u8;
            for (i, &d) in leaves.iter().enumerate() {
                if d < maxl && (idx.is_none() || d > best) {
                    best = d;
                    idx = Some(i);
                }
            }
        } else {
            // uniform over splittable leaves
            let cnt = leaves.iter().filter(|&&d| d < maxl).count();
            let mut k = rng.usize_below(cnt);
            for (i, &d) in leaves.iter().enumerate() {
                if d < maxl {
                    if k == 0 {
                        idx = Some(i);
                        break;
                    }
                    k -= 1;
                }
            }
        }
        let i = idx.expect("a splittable leaf exists while n <= 2^maxl");
        let d = leaves[i] + 1;
        leaves[i] = d;
        leaves.push(d);
    }
    leaves
}

/// Assign a random complete code over `must` symbols plus some extra symbols of the alphabet.
/// Returns the length per symbol (0 = unused). Degenerate: exactly one symbol => length 1.
fn random_code(
    rng: &mut Rng,
    alphabet: usize,
    must: &[bool],
    maxl: u8,
    allow_single: bool,
    deep_bias: u64,
    extra_syms: usize,
) -> Vec<u8> {
    let mut used: Vec<usize> = (0..alphabet).filter(|&s| must[s]).collect();
    // add extra symbols
    let mut tries = 0;
    let mut is_used: Vec<bool> = must[..alphabet].to_vec();
    let mut extra = extra_syms;
    while extra > 0 && tries < 4 * alphabet {
        tries += 1;
        let s = rng.usize_below(alphabet);
        if !is_used[s] {
            is_used[s] = true;
            used.push(s);
            extra -= 1;
        }
    }
    let mut lens = vec![0u8; alphabet];
    if used.is_empty() {
        return lens;
    }
    if used.len() == 1 {
        if allow_single {
            lens[used[0]] = 1;
            return lens;
        }
        // need a second symbol for completeness
        let mut s = rng.usize_below(alphabet);
        while is_used[s] {
            s = (s + 1) % alphabet;
        }
        used.push(s);
    }
    let mut depths = random_depths(rng, used.len(), maxl, deep_bias);
    // shuffle depths
    for i in (1..depths.len()).rev() {
        let j = rng.usize_below(i + 1);
        depths.swap(i, j);
    }
    for (k, &s) in used.iter().enumerate() {
        lens[s] = depths[k];
    }
    lens
}


fn kraft_num(lens: &[u8]) -> u64 {
    // sum of 2^(15-l) over coded symbols; complete == 1<<15
    lens.iter().filter(|&&l| l > 0).map(|&l| 1u64 << (15 - l as u32)).sum()
}

/// Modify transmitted lengths so that the code is over-subscribed.
fn make_over(lens: &mut Vec<u8>, max_len_field: usize) {
    loop {
        if kraft_num(lens) > (1 << 15) {
            return;
        }
        if let Some(p) = lens.iter().position(|&l| l == 0) {
            lens[p] = 1;
        } else if let Some(p) = lens.iter().position(|&l| l > 1) {
            lens[p] -= 1;
        } else if lens.len() < max_len_field {
            lens.push(1);
        } else {
            return;
        }
    }
}

/// Modify transmitted lengths so that the code is incomplete with a longest code > 1 bit.
fn make_incomplete(lens: &mut Vec<u8>, maxl: u8, prefer_unused: &[bool]) {
    if lens.iter().all(|&l| l == 0) {
        lens[0] = 2;
        return;
    }
    let maxlen = lens.iter().copied().max().unwrap_or(0);
    if maxlen > 1 && lens.iter().filter(|&&l| l > 0).count() > 2 && (lens.len() + maxlen as usize) % 2 == 0 {
        // deficit of exactly one leaf at the maximum depth
        if let Some(q) = (0..lens.len()).rev().find(|&s| lens[s] == maxlen && !prefer_unused.get(s).copied().unwrap_or(false)).or_else(|| (0..lens.len()).rev().find(|&s| lens[s] == maxlen)) {
            lens[q] = 0;
            return;
        }
    }
    let cand = (0..lens.len()).find(|&s| lens[s] > 0 && lens[s] < maxl && !prefer_unused.get(s).copied().unwrap_or(false));
    let p = cand.or_else(|| (0..lens.len()).find(|&s| lens[s] > 0 && lens[s] < maxl));
    match p {
        Some(p) => lens[p] += 1,
        None => {
            // every code already has the maximum length: drop one
            let q = lens.iter().position(|&l| l > 0).unwrap();
            lens[q] = 0;
        }
    }
}

#[derive(Clone, Copy, Debug, PartialEq, Eq)]
pub enum Spec {
    None,
    Btype3,
    LenNlen,
    ClOver,
    ClIncomplete,
    LlOver,
    LlIncomplete,
    DOver,
    DIncomplete,
    Hlit287,
    Hdist31,
    Repeat16First,
    RunOverflow,
    Sym286,
    Dist30,
    DistBeforeStart,
    /// a length symbol in a block whose distance code is empty, or a distance bit pattern that the block's
    /// single one-bit distance code leaves unassigned
    MatchNoDist,
    ZBadCm,
    ZBadCinfo,
    ZFdict,
    ZBadFcheck,
    ZWrongAdler,
}

pub const ALL_SPECS: [Spec; 21] = [
    Spec::Btype3,
    Spec::LenNlen,
    Spec::ClOver,
    Spec::ClIncomplete,
    Spec::LlOver,
    Spec::LlIncomplete,
    Spec::DOver,
    Spec::DIncomplete,
    Spec::Hlit287,
    Spec::Hdist31,
    Spec::Repeat16First,
    Spec::RunOverflow,
    Spec::Sym286,
    Spec::Dist30,
    Spec::DistBeforeStart,
    Spec::MatchNoDist,
    Spec::ZBadCm,
    Spec::ZBadCinfo,
    Spec::ZFdict,
    Spec::ZBadFcheck,
    Spec::ZWrongAdler,
];

impl Spec {
    pub fn is_zlib(self) -> bool {
        matches!(self, Spec::ZBadCm | Spec::ZBadCinfo | Spec::ZFdict | Spec::ZBadFcheck | Spec::ZWrongAdler)
    }
}

#[derive(Clone, Debug, Default)]
pub struct Features {
    pub long_code: bool,        // a code of 11..15 bits exists in a litlen or dist code
    pub long_code_used: bool,   // ... and a token actually used one
    pub single_sym_code: bool,  // degenerate one-symbol code
    pub no_dist_code: bool,     // zero distance codes
    pub run_crosses_hlit: bool, // a 16/17/18 run crossing the literal/distance boundary
    pub rep16: bool,
    pub rep17: bool,
    pub rep18: bool,
    pub stored_align: u8,       // bitmask of bit alignments (0..7) at which a stored header started
    pub empty_stored: bool,
    pub empty_fixed: bool,
    pub empty_dynamic: bool,
    pub len258: bool,
    pub dist32768: bool,
    pub overlap: bool,
    pub nonminimal_hdr: bool,
    pub blocks: u32,
}

pub struct BlockTruth {
    pub btype: u8,
    pub start_bit: usize,
    pub end_bit: usize,
    pub out_end: usize,
}

pub struct Stream {
    pub bytes: Vec<u8>,
    pub plain: Vec<u8>,
    pub blocks: Vec<BlockTruth>,
    /// exact encoded length in bytes (header and trailer included)
    pub enc_len: usize,
    pub zlib: bool,
    pub feat: Features,
    /// Some(spec) when a targeted violation was planted; the stream is then *invalid* by construction.
    pub spec: Spec,
    pub max_dist: usize,
}

#[derive(Clone, Copy)]
pub struct GenCfg {
    pub zlib: bool,
    /// rough plaintext size target
    pub target: usize,
    pub spec: Spec,
    /// maximum distance allowed (for ring tests with small rings); 32768 normally
    pub max_dist: usize,
    /// length 258 may be spelled 284 + 31 extra (accepted by zlib and by the crate, outside the RFC's table:
    /// "unspecified" for accept/reject comparisons, but a perfectly good input for schedule / budget properties)
    pub alt258: bool,
    /// > 0: "window edge" family - the first block(s) produce exactly this many bytes and the next block
    /// starts with a match whose distance sits on that edge (32767 / 32768 / = produced ...)
    pub edge: usize,
}

#[derive(Clone, Copy)]
enum T {
    Lit(u8),
    Match(u16, u16),
}

struct LenTab {
    base: [u16; 29],
    extra: [u8; 29],
    dbase: [u32; 30],
    dextra: [u8; 30],
}

fn lentab() -> LenTab {
    // Written out from the tables printed in RFC 1951 3.2.5 (independently of refinf's formula,
    // so that the two harness components check each other in the self-test).
    LenTab {
        base: [
            3, 4, 5, 6, 7, 8, 9, 10, 11, 13, 15, 17, 19, 23, 27, 31, 35, 43, 51, 59, 67, 83, 99, 115, 131,
            163, 195, 227, 258,
        ],
        extra: [0, 0, 0, 0, 0, 0, 0, 0, 1, 1, 1, 1, 2, 2, 2, 2, 3, 3, 3, 3, 4, 4, 4, 4, 5, 5, 5, 5, 0],
        dbase: [
            1, 2, 3, 4, 5, 7, 9, 13, 17, 25, 33, 49, 65, 97, 129, 193, 257, 385, 513, 769, 1025, 1537, 2049,
            3073, 4097, 6145, 8193, 12289, 16385, 24577,
        ],
        dextra: [
            0, 0, 0, 0, 1, 1, 2, 2, 3, 3, 4, 4, 5, 5, 6, 6, 7, 7, 8, 8, 9, 9, 10, 10, 11, 11, 12, 12, 13, 13,
        ],
    }
}

thread_local! {
    /// decided once per block by write_block (len_sym is called twice per match and must agree with itself)
    static ALT258: std::cell::Cell<bool> = const { std::cell::Cell::new(false) };
}

fn len_sym(t: &LenTab, len: usize, rng: &mut Rng) -> (usize, u32, u32) {
    // length 258 has two encodings in practice: 285, or 284 + 31 which is "unspecified" (GenCfg::alt258)
    if len == 258 {
        if ALT258.with(|c| c.get()) {
            return (284, 31, 5);
        }
        return (285, 0, 0);
    }
    let _ = rng;
    let mut i = 27;
    while t.base[i] as usize > len {
        i -= 1;
    }
    (257 + i, (len - t.base[i] as usize) as u32, t.extra[i] as u32)
}

fn dist_sym(t: &LenTab, dist: usize) -> (usize, u32, u32) {
    let mut i = 29;
    while t.dbase[i] as usize > dist {
        i -= 1;
    }
    (i, (dist - t.dbase[i] as usize) as u32, t.dextra[i] as u32)
}

fn gen_tokens(rng: &mut Rng, plain: &mut Vec<u8>, n: usize, out_budget: usize, cfg: &GenCfg, feat: &mut Features, style: u64) -> Vec<T> {
    let mut toks = Vec::with_capacity(n.min(4096));
    let stop_at = plain.len() + out_budget;
    // per-block byte distribution
    let alpha: Vec<u8> = match style % 4 {
        0 => (0..=255u8).collect(),
        1 => {
            let k = rng.range(1, 6);
            rng.bytes(k)
        }
        2 => b"etaoin shrdlu,.\n".to_vec(),
        _ => {
            let k = rng.range(8, 64);
            rng.bytes(k)
        }
    };
    let match_pct = match (style / 4) % 4 {
        0 => 0,
        1 => 15,
        2 => 50,
        _ => 90,
    };
    for _ in 0..n {
        let produced = plain.len();
        if produced >= stop_at {
            break;
        }
        if produced > 0 && rng.chance(match_pct, 100) {
            let len = match rng.below(12) {
                0 => 3,
                1 => 4,
                2 => rng.range(10, 13),
                3 => 257,
                4 | 5 => 258,
                6 => rng.range(3, 258),
                7 => rng.pick(&[18usize, 19, 34, 35, 66, 67, 130, 131, 226, 227]),
                _ => rng.range(3, 40),
            };
            let maxd = produced.min(cfg.max_dist);
            let mut dist = match rng.below(14) {
                0 => 1,
                1 => 2,
                2 => 3,
                3 => 4,
                4 => len.saturating_sub(1).max(1),
                5 => len,
                6 => len + 1,
                7 => 32767,
                8 | 9 => 32768,
                10 => maxd,
                11 => rng.pick(&[255usize, 256, 257, 4095, 4096, 4097, 8191, 8192, 16383, 16384, 16385, 24576, 24577]),
                _ => rng.range(1, maxd.max(1)),
            };
            if dist > maxd {
                dist = if rng.chance(1, 2) { maxd } else { rng.range(1, maxd) };
            }
            if len == 258 {
                feat.len258 = true;
            }
            if dist == 32768 {
                feat.dist32768 = true;
            }
            if dist < len {
                feat.overlap = true;
            }
            for _ in 0..len {
                let b = plain[plain.len() - dist];
                plain.push(b);
            }
            toks.push(T::Match(len as u16, dist as u16));
        } else {
            let b = alpha[rng.usize_below(alpha.len())];
            plain.push(b);
            toks.push(T::Lit(b));
        }
    }
    toks
}

const CL_ORDER: [usize; 19] = [16, 17, 18, 0, 8, 7, 9, 6, 10, 5, 11, 4, 12, 3, 13, 2, 14, 1, 15];

/// Encode the HLIT+HDIST length sequence with a seeded mix of literal / 16 / 17 / 18 (Appendix A.2).
fn cl_encode(rng: &mut Rng, seq: &[u8], hlit: usize, feat: &mut Features, rle_pct: u64) -> Vec<(u8, u32)> {
    let mut out: Vec<(u8, u32)> = Vec::new();
    let mut i = 0;
    while i < seq.len() {
        let v = seq[i];
        let mut run = 1;
        while i + run < seq.len() && seq[i + run] == v {
            run += 1;
        }
        let use_rle = rng.chance(rle_pct, 100);
        if v == 0 && run >= 3 && use_rle {
            // choose a chunk 3..=min(run,138)
            let maxc = run.min(138);
            let c = if rng.chance(2, 3) { maxc } else { rng.range(3, maxc) };
            if c <= 10 && (c < 11 || rng.chance(1, 2)) {
                out.push((17, (c - 3) as u32));
                feat.rep17 = true;
            } else {
                out.push((18, (c - 11) as u32));
                feat.rep18 = true;
            }
            if i < hlit && i + c > hlit {
                feat.run_crosses_hlit = true;
            }
            i += c;
        } else if v != 0 && i > 0 && seq[i - 1] == v && run >= 3 && use_rle {
            let maxc = run.min(6);
            let c = if rng.chance(2, 3) { maxc } else { rng.range(3, maxc) };
            out.push((16, (c - 3) as u32));
            feat.rep16 = true;
            if i < hlit && i + c > hlit {
                feat.run_crosses_hlit = true;
            }
            i += c;
        } else {
            out.push((v, 0));
            i += 1;
        }
    }
    out
}

fn write_block(
    rng: &mut Rng,
    w: &mut BitW,
    plain: &mut Vec<u8>,
    cfg: &GenCfg,
    feat: &mut Features,
    bfinal: bool,
    ntok: usize,
    poison: Spec,
    lt: &LenTab,
    max_dist_seen: &mut usize,
    preset: Option<(Vec<T>, u8)>,
    force_first: Option<(usize, usize)>,
) -> u8 {
    let alt = cfg.alt258 && rng.chance(1, 3);
    ALT258.with(|c| c.set(alt));
    let mut btype = match rng.below(10) {
        0 | 1 => 0u8,
        2 | 3 | 4 => 1,
        _ => 2,
    };
    if let Some((_, bt)) = &preset {
        btype = *bt;
    }
    if force_first.is_some() && btype == 0 {
        btype = if rng.chance(1, 2) { 1 } else { 2 };
    }
    match poison {
        Spec::Btype3 => {
            w.bits(bfinal as u32, 1);
            w.bits(3, 2);
            return 3;
        }
        Spec::LenNlen => btype = 0,
        Spec::Sym286 | Spec::Dist30 => btype = 1,
        Spec::ClOver
        | Spec::ClIncomplete
        | Spec::LlOver
        | Spec::LlIncomplete
        | Spec::DOver
        | Spec::DIncomplete
        | Spec::Hlit287
        | Spec::Hdist31
        | Spec::Repeat16First
        | Spec::RunOverflow
        | Spec::MatchNoDist => btype = 2,
        Spec::DistBeforeStart => {
            if btype == 0 {
                btype = 1
            }
        }
        _ => {}
    }
    w.bits(bfinal as u32, 1);
    w.bits(btype as u32, 2);
    if btype == 0 {
        let hdr_bit = (w.bitpos() - 3) % 8;
        feat.stored_align |= 1 << hdr_bit;
        let filler = rng.below(256) as u32;
        w.align_with(filler);
        let len = match rng.below(8) {
            0 => 0,
            1 => 1,
            2 => rng.range(2, 20),
            3 if cfg.target > 40_000 => 65535,
            4 if cfg.target > 40_000 => rng.range(30_000, 65535),
            _ => rng.range(0, (ntok.max(1) * 2).min(65535)),
        };
        if len == 0 {
            feat.empty_stored = true;
        }
        let mut nlen = !(len as u32) & 0xFFFF;
        if poison == Spec::LenNlen {
            nlen ^= 1 << rng.below(16);
        }
        w.bits(len as u32, 16);
        w.bits(nlen, 16);
        let data = match rng.below(3) {
            0 => rng.bytes(len),
            1 => vec![rng.below(256) as u8; len],
            _ => {
                let a = rng.bytes(4);
                (0..len).map(|i| a[i % 4]).collect()
            }
        };
        w.bytes(&data);
        plain.extend_from_slice(&data);
        return 0;
    }
    let mut style = rng.next_u64();
    if poison == Spec::MatchNoDist {
        style &= !0xC; // literals only
    }
    let n = if rng.chance(1, 12) { 0 } else { ntok };
    let out_budget = if n == 0 { 0 } else { rng.range(n / 2 + 1, n * 2 + 2) };
    let mut toks = match preset {
        Some((t, _)) => t, // caller has already appended the bytes to `plain`
        None => {
            let mut first: Vec<T> = Vec::new();
            if let Some((len, dist)) = force_first {
                if dist >= 1 && dist <= plain.len() && dist <= 32768 {
                    for _ in 0..len {
                        let b = plain[plain.len() - dist];
                        plain.push(b);
                    }
                    if dist == 32768 {
                        feat.dist32768 = true;
                    }
                    if len == 258 {
                        feat.len258 = true;
                    }
                    first.push(T::Match(len as u16, dist as u16));
                }
            }
            let rest = gen_tokens(rng, plain, n, out_budget, cfg, feat, style);
            first.extend(rest);
            first
        }
    };
    if poison == Spec::DistBeforeStart {
        // a match reaching one..many bytes before the start of the output
        // mostly one or two bytes too far; never beyond what a distance code can express while a violation is
        // still possible (fewer than 32768 bytes produced so far)
        let over = if rng.chance(2, 3) { rng.pick(&[1usize, 1, 1, 2, 3]) } else { rng.range(1, 40) };
        let d = (plain.len() + over).min(32768);
        if d > plain.len() {
            toks.push(T::Match(rng.range(3, 20) as u16, d as u16));
            // plaintext after this point is undefined; stream is invalid in flat mode
        }
    }
    for t in &toks {
        if let T::Match(_, d) = t {
            if (*d as usize) > *max_dist_seen {
                *max_dist_seen = *d as usize;
            }
        }
    }
    if n == 0 {
        if btype == 1 {
            feat.empty_fixed = true
        } else {
            feat.empty_dynamic = true
        }
    }
    // symbol usage
    let mut ll_used = vec![false; 288];
    let mut d_used = vec![false; 32];
    ll_used[256] = true;
    for t in &toks {
        match *t {
            T::Lit(b) => ll_used[b as usize] = true,
            T::Match(l, d) => {
                let (s, _, _) = len_sym(lt, l as usize, rng);
                ll_used[s] = true;
                let (ds, _, _) = dist_sym(lt, d as usize);
                d_used[ds] = true;
            }
        }
    }
    // MatchNoDist: the block has a code for one length symbol but no (or only one one-bit) distance code
    let nd_len_sym = 257 + rng.usize_below(29);
    let nd_single = rng.chance(1, 2);
    let nd_dist_sym = rng.usize_below(30);
    if poison == Spec::MatchNoDist && btype == 2 {
        ll_used[nd_len_sym] = true;
        if nd_single {
            d_used[nd_dist_sym] = true;
        }
    }
    let (ll_lens, d_lens): (Vec<u8>, Vec<u8>);
    if btype == 1 {
        let mut ll = vec![0u8; 288];
        for (i, l) in ll.iter_mut().enumerate() {
            *l = if i < 144 {
                8
            } else if i < 256 {
                9
            } else if i < 280 {
                7
            } else {
                8
            };
        }
        ll_lens = ll;
        d_lens = vec![5u8; 32];
    } else {
        let deep = rng.pick(&[0u64, 10, 40, 80, 97, 206, 209, 210, 211]);
        let extra_ll = match rng.below(4) {
            0 => 0,
            1 => rng.range(0, 10),
            2 => rng.range(0, 100),
            _ => 286,
        };
        let ll = random_code(rng, 286, &ll_used, 15, true, deep, extra_ll);
        let n_d_used = d_used.iter().filter(|&&x| x).count();
        let extra_d = match rng.below(4) {
            0 => 0,
            1 => rng.range(0, 3),
            2 => rng.range(0, 12),
            _ => 30,
        };
        let deep_d = rng.pick(&[0u64, 30, 90]);
        let extra_d = if (n_d_used == 0 && rng.chance(1, 2)) || poison == Spec::MatchNoDist { 0 } else { extra_d };
        let d = random_code(rng, 30, &d_used, 15, true, deep_d, extra_d);
        let nll = ll.iter().filter(|&&l| l > 0).count();
        let nd = d.iter().filter(|&&l| l > 0).count();
        if nll == 1 || nd == 1 {
            feat.single_sym_code = true;
        }
        if nd == 0 {
            feat.no_dist_code = true;
        }
        if ll.iter().chain(d.iter()).any(|&l| l >= 11) {
            feat.long_code = true;
        }
        ll_lens = ll;
        d_lens = d;

        // ---- dynamic header ----
        let mut hlit = 257.max(ll_lens.iter().rposition(|&l| l > 0).map_or(0, |p| p + 1));
        let mut hdist = 1.max(d_lens.iter().rposition(|&l| l > 0).map_or(0, |p| p + 1));
        if rng.chance(1, 5) {
            let h2 = rng.range(hlit, 286);
            let d2 = rng.range(hdist, 30);
            if h2 != hlit || d2 != hdist {
                feat.nonminimal_hdr = true;
            }
            hlit = h2;
            hdist = d2;
        }
        let mut tx_ll: Vec<u8> = ll_lens[..hlit.min(286)].to_vec();
        let mut tx_d: Vec<u8> = d_lens[..hdist.min(30)].to_vec();
        // transmitted lengths may be poisoned; token codes below still use the clean lengths
        match poison {
            Spec::LlOver => make_over(&mut tx_ll, 286),
            Spec::LlIncomplete => make_incomplete(&mut tx_ll, 15, &ll_used),
            Spec::DOver => make_over(&mut tx_d, 30),
            Spec::DIncomplete => make_incomplete(&mut tx_d, 15, &d_used),
            _ => {}
        }
        let mut hlit_field = tx_ll.len() as u32 - 257;
        let mut hdist_field = tx_d.len() as u32 - 1;
        if poison == Spec::Hlit287 {
            hlit_field = rng.pick(&[30u32, 31, 31]);
            tx_ll.resize(hlit_field as usize + 257, 0);
            if rng.chance(1, 2) {
                let l = tx_ll.len();
                tx_ll[l - 1] = 0;
            }
        }
        if poison == Spec::Hdist31 || (poison == Spec::Hlit287 && rng.chance(1, 2)) {
            // (with Hlit287: both size fields beyond their alphabets at once, often both all-ones)
            hdist_field = if poison == Spec::Hlit287 { rng.pick(&[31u32, 31, 30]) } else { rng.range(30, 31) as u32 };
            tx_d.resize(hdist_field as usize + 1, 0);
        }
        let mut seq = tx_ll.clone();
        seq.extend_from_slice(&tx_d);
        let rle_pct = rng.pick(&[0u64, 50, 90, 100]);
        let mut items = cl_encode(rng, &seq, tx_ll.len(), feat, rle_pct);
        if poison == Spec::Repeat16First {
            items.insert(0, (16, rng.below(4) as u32));
        }
        if poison == Spec::RunOverflow {
            // replace the final item by a zero-run that overruns HLIT + HDIST
            let covered = match items.pop() {
                Some((16, e)) | Some((17, e)) => 3 + e as usize,
                Some((18, e)) => 11 + e as usize,
                Some(_) => 1,
                None => 0,
            };
            let want = (covered + 1 + rng.range(0, 20)).max(11);
            if want <= 138 {
                items.push((18, (want - 11) as u32));
            } else {
                items.push((18, 127));
                items.push((17, rng.range(0, 7) as u32));
            }
        }
        let mut cl_used = vec![false; 19];
        for &(s, _) in &items {
            cl_used[s as usize] = true;
        }
        let cl_extra = rng.range(0, 4);
        let cl_deep = rng.pick(&[0u64, 50, 95]);
        let mut cl_lens = random_code(rng, 19, &cl_used, 7, false, cl_deep, cl_extra);
        let cl_codes = canon(&cl_lens);
        match poison {
            Spec::ClOver => make_over(&mut cl_lens, 19),
            Spec::ClIncomplete => make_incomplete(&mut cl_lens, 7, &[]),
            _ => {}
        }
        let mut hclen = 4;
        for (i, &s) in CL_ORDER.iter().enumerate() {
            if cl_lens[s] != 0 {
                hclen = hclen.max(i + 1);
            }
        }
        if rng.chance(1, 4) {
            let h2 = rng.range(hclen, 19);
            if h2 != hclen {
                feat.nonminimal_hdr = true;
            }
            hclen = h2;
        }
        w.bits(hlit_field, 5);
        w.bits(hdist_field, 5);
        w.bits(hclen as u32 - 4, 4);
        for &s in CL_ORDER.iter().take(hclen) {
            w.bits(cl_lens[s] as u32, 3);
        }
        for &(s, e) in &items {
            // poisoned cl_lens may have turned a used symbol's length to 0; still write something
            let l = cl_lens[s as usize].max(1) as u32;
            w.huff(cl_codes[s as usize] & ((1 << l) - 1), l);
            match s {
                16 => w.bits(e, 2),
                17 => w.bits(e, 3),
                18 => w.bits(e, 7),
                _ => {}
            }
        }
    }
    // ---- tokens ----
    let ll_codes = canon(&ll_lens);
    let d_codes = canon(&d_lens);
    for t in &toks {
        match *t {
            T::Lit(b) => {
                let l = ll_lens[b as usize] as u32;
                if l >= 11 {
                    feat.long_code_used = true;
                }
                w.huff(ll_codes[b as usize], l)
            }
            T::Match(l, d) => {
                let (s, e, eb) = len_sym(lt, l as usize, rng);
                if ll_lens[s] >= 11 {
                    feat.long_code_used = true;
                }
                w.huff(ll_codes[s], ll_lens[s] as u32);
                w.bits(e, eb);
                let (ds, de, deb) = dist_sym(lt, d as usize);
                if d_lens[ds] >= 11 {
                    feat.long_code_used = true;
                }
                w.huff(d_codes[ds], d_lens[ds] as u32);
                w.bits(de, deb);
            }
        }
    }
    if poison == Spec::MatchNoDist && btype == 2 {
        // the length symbol with its extra bits, then a distance that the block's distance code cannot express
        w.huff(ll_codes[nd_len_sym], ll_lens[nd_len_sym] as u32);
        let eb = lt.extra[nd_len_sym - 257] as u32;
        w.bits(rng.below(1 << eb) as u32, eb);
        let nd = d_lens.iter().filter(|&&l| l > 0).count();
        if nd == 1 && d_lens[nd_dist_sym] == 1 {
            w.bits(1, 1); // the single code is '0'; '1' is the unassigned pattern
        }
        w.bits(rng.below(1 << 13) as u32, 13);
    }
    if poison == Spec::Sym286 {
        let s = rng.range(286, 287);
        w.huff(ll_codes[s], 8);
    }
    if poison == Spec::Dist30 {
        // length code 257 (len 3) then distance symbol 30/31
        w.huff(ll_codes[257], 7);
        w.huff(rng.range(30, 31) as u32, 5);
    }
    w.huff(ll_codes[256], ll_lens[256] as u32);
    btype
}

pub fn generate(rng: &mut Rng, cfg: &GenCfg) -> Stream {
    let lt = lentab();
    let mut w = BitW::new();
    let mut feat = Features::default();
    let mut plain: Vec<u8> = Vec::new();
    let mut blocks = Vec::new();
    let nblocks = match rng.below(6) {
        0 => 1,
        1 => 2,
        2 => rng.range(1, 4),
        3 => rng.range(2, 8),
        _ => rng.range(1, 3),
    };
    let per_block = (cfg.target / nblocks).max(1);
    let poison_block = if cfg.spec != Spec::None && !cfg.spec.is_zlib() { rng.usize_below(nblocks) } else { usize::MAX };
    let mut max_dist = 0usize;
    let mut poisoned = false;
    let mut force_first: Option<(usize, usize)> = None;
    if cfg.edge > 0 {
        // first part: exactly cfg.edge bytes, as stored blocks or as one dynamic block of literals with a
        // two-symbol alphabet (1-2 bit codes: the decoder's read-ahead then holds several symbols)
        let p = cfg.edge;
        if rng.chance(1, 2) {
            let mut left = p;
            while left > 0 || plain.is_empty() && p == 0 {
                let l = left.min(if rng.chance(1, 2) { 65535 } else { rng.range(1, 65535) });
                let start_bit = w.bitpos();
                w.bits(0, 1);
                w.bits(0, 2);
                let filler = rng.below(256) as u32;
                w.align_with(filler);
                w.bits(l as u32, 16);
                w.bits(!(l as u32) & 0xFFFF, 16);
                let data = rng.bytes(l);
                w.bytes(&data);
                plain.extend_from_slice(&data);
                blocks.push(BlockTruth { btype: 0, start_bit, end_bit: w.bitpos(), out_end: plain.len() });
                feat.blocks += 1;
                left -= l;
                if p == 0 {
                    break;
                }
            }
        } else {
            let a = rng.below(256) as u8;
            let b2 = a.wrapping_add(1 + rng.below(254) as u8);
            let mut t = Vec::with_capacity(p);
            for _ in 0..p {
                let x = if rng.chance(3, 4) { a } else { b2 };
                plain.push(x);
                t.push(T::Lit(x));
            }
            let start_bit = w.bitpos();
            let bt = write_block(rng, &mut w, &mut plain, cfg, &mut feat, false, 0, Spec::None, &lt, &mut max_dist, Some((t, 2)), None);
            blocks.push(BlockTruth { btype: bt, start_bit, end_bit: w.bitpos(), out_end: plain.len() });
            feat.blocks += 1;
        }
        let produced = plain.len();
        let d = rng.pick(&[produced, produced.saturating_sub(1).max(1), 32768, 32767, 1, produced / 2 + 1]).min(produced.max(1)).min(32768).min(cfg.max_dist.max(1));
        let l = rng.pick(&[3usize, 4, 258, 257, 100, 19]);
        if produced > 0 {
            force_first = Some((l, d));
        }
    }
    for bi in 0..nblocks {
        let bfinal = bi == nblocks - 1;
        let start_bit = w.bitpos();
        let ntok = if per_block < 64 { rng.range(0, per_block) } else { rng.range(per_block / 8, per_block) };
        let poison = if bi == poison_block { cfg.spec } else { Spec::None };
        let ff = if bi == 0 && poison == Spec::None && rng.chance(2, 3) { force_first.take() } else { None };
        let bt = write_block(rng, &mut w, &mut plain, cfg, &mut feat, bfinal, ntok, poison, &lt, &mut max_dist, None, ff);
        blocks.push(BlockTruth { btype: bt, start_bit, end_bit: w.bitpos(), out_end: plain.len() });
        feat.blocks += 1;
        if poison != Spec::None {
            poisoned = true;
            break;
        }
    }
    if poisoned {
        // some arbitrary continuation
        let n = rng.range(0, 12);
        let junk = rng.bytes(n);
        w.align();
        w.bytes(&junk);
    } else {
        let filler = rng.below(256) as u32;
        w.align_with(filler);
    }
    let body = w.finish();
    let mut bytes = Vec::with_capacity(body.len() + 6);
    if cfg.zlib {
        // smallest CINFO whose window covers the distances used; usually declare that or more
        let mut min_c = 0u32;
        while (1usize << (min_c + 8)) < max_dist {
            min_c += 1;
        }
        let mut cinfo = if rng.chance(1, 2) { 7 } else { rng.range(min_c as usize, 7) as u32 };
        if min_c > 0 && rng.chance(1, 25) {
            cinfo = rng.below(min_c as u64) as u32; // under-declared window: "unspecified" (DESIGN 3.1)
        }
        let mut cm = 8u32;
        let flevel = rng.below(4) as u32;
        let mut fdict = 0u32;
        match cfg.spec {
            Spec::ZBadCm => {
                cm = rng.below(16) as u32;
                if cm == 8 {
                    cm = 7
                }
            }
            Spec::ZBadCinfo => cinfo = rng.range(8, 15) as u32,
            Spec::ZFdict => fdict = 1,
            _ => {}
        }
        let cmf = (cinfo << 4) | cm;
        let mut flg = (flevel << 6) | (fdict << 5);
        let rem = (cmf * 256 + flg) % 31;
        if rem != 0 {
            flg += 31 - rem;
        }
        if cfg.spec == Spec::ZBadFcheck {
            flg ^= 1 << rng.below(5);
            if (cmf * 256 + (flg & 0xFF)) % 31 == 0 {
                flg ^= 1;
            }
        }
        bytes.push(cmf as u8);
        bytes.push(flg as u8);
    }
    bytes.extend_from_slice(&body);
    if cfg.zlib && !poisoned {
        let mut a = crate::refinf::adler32_def(1, &plain);
        if cfg.spec == Spec::ZWrongAdler {
            a ^= 1 << rng.below(32);
        }
        bytes.extend_from_slice(&a.to_be_bytes());
    }
    let enc_len = bytes.len();
    Stream { bytes, plain, blocks, enc_len, zlib: cfg.zlib, feat, spec: cfg.spec, max_dist }
}
