//! `pipe` scenario: source -> REAL compressor under a random call schedule -> sink (-> consumers).
//! Serves C02, C09 (producer side), C10, C11, C12, C16 (running checksum probe).

use crate::refinf::{self, adler32_def, Opts, Tok, Verdict};
use crate::rng::Hasher;
use crate::runner::RunInfo;
use crate::script::{viol, Script, Stats, Violation};
use crate::zlibffi;
use miniz_oxide::deflate::core::{compress, compress_to_output, create_comp_flags_from_zip_params, CompressionStrategy, CompressorOxide, TDEFLFlush, TDEFLStatus};
use miniz_oxide::deflate::stream::deflate;
use miniz_oxide::deflate::CompressionLevel;
use miniz_oxide::{DataFormat, MZError, MZFlush, MZStatus};

pub const PC_C02: i64 = 1;
pub const PC_C09: i64 = 2;
pub const PC_C10: i64 = 4;
pub const PC_C11: i64 = 8;
pub const PC_C12: i64 = 16;
pub const PC_C16: i64 = 32;
pub const PC_REDUNDANCY: i64 = 64;

pub fn strategy_of(v: i64) -> CompressionStrategy {
    match v {
        1 => CompressionStrategy::Filtered,
        2 => CompressionStrategy::HuffmanOnly,
        3 => CompressionStrategy::RLE,
        4 => CompressionStrategy::Fixed,
        _ => CompressionStrategy::Default,
    }
}

pub fn tdefl_flush_of(v: i64) -> TDEFLFlush {
    match v {
        1 => TDEFLFlush::Partial,
        2 => TDEFLFlush::Sync,
        3 => TDEFLFlush::Full,
        4 => TDEFLFlush::Finish,
        5 => TDEFLFlush::PartialOpt,
        6 => TDEFLFlush::SyncOpt,
        7 => TDEFLFlush::NoSync,
        _ => TDEFLFlush::None,
    }
}

pub fn mz_flush_of(v: i64) -> MZFlush {
    match v {
        1 => MZFlush::Partial,
        2 => MZFlush::Sync,
        3 => MZFlush::Full,
        4 => MZFlush::Finish,
        5 => MZFlush::Block,
        _ => MZFlush::None,
    }
}

pub fn make_compressor(s: &Script) -> CompressorOxide {
    let mut d = construct(s);
    if s.c("pre_reset") == 0 || s.c("setter_before_reset") != 0 {
        apply_setters(s, &mut d);
    }
    d
}

fn construct(s: &Script) -> CompressorOxide {
    let zlib = s.c("zlib") != 0;
    let level = s.c("level");
    let strategy = s.c("strategy");
    let wb = s.c_or("window_bits", 15);
    // the enum's two zlib members ("ZLibIgnoreChecksum behaves the same as Zlib for compression") alternate as a
    // function of the configuration only
    let fmt = if zlib { if (level + strategy + wb).rem_euclid(3) == 2 { DataFormat::ZLibIgnoreChecksum } else { DataFormat::Zlib } } else { DataFormat::Raw };
    match s.c("ctor") {
        1 => CompressorOxide::new(create_comp_flags_from_zip_params(level as i32, if zlib { wb as i32 } else { -(wb as i32) }, strategy as i32)),
        2 => CompressorOxide::default(),
        // what the C shim does: explicit running checksum also for raw streams
        4 => CompressorOxide::new(miniz_oxide::deflate::core::deflate_flags::TDEFL_COMPUTE_ADLER32 | create_comp_flags_from_zip_params(level as i32, if zlib { wb as i32 } else { -(wb as i32) }, strategy as i32)),
        3 => {
            let l = match level {
                0 => CompressionLevel::NoCompression,
                1 => CompressionLevel::BestSpeed,
                9 => CompressionLevel::BestCompression,
                10 => CompressionLevel::UberCompression,
                6 => CompressionLevel::DefaultLevel,
                _ => CompressionLevel::DefaultCompression,
            };
            CompressorOxide::with_format_and_level(fmt, l)
        }
        _ => CompressorOxide::with_params(fmt, level.clamp(0, 255) as u8, strategy_of(strategy), wb.clamp(0, 255) as u8),
    }
}

/// Settings changed through the public setters before the first compress call (after construction, or after
/// the reset of a reused compressor): cfg "setter" = 1 set_compression_level, 2 set_compression_level_raw,
/// 3 set_format_and_level; "setter_level", "setter_zlib"; "setter2*" a second call.
pub fn apply_setters(s: &Script, d: &mut CompressorOxide) {
    for pre in ["setter", "setter2"] {
        let k = s.c(pre);
        if k == 0 {
            continue;
        }
        let level = s.c(&format!("{}_level", pre)).clamp(0, 255) as u8;
        match k {
            1 => {
                let l = match level {
                    0 => CompressionLevel::NoCompression,
                    1 => CompressionLevel::BestSpeed,
                    9 => CompressionLevel::BestCompression,
                    10 => CompressionLevel::UberCompression,
                    _ => CompressionLevel::DefaultLevel,
                };
                d.set_compression_level(l);
            }
            2 => d.set_compression_level_raw(level),
            _ => d.set_format_and_level(if s.c(&format!("{}_zlib", pre)) != 0 { if level % 3 == 2 { DataFormat::ZLibIgnoreChecksum } else { DataFormat::Zlib } } else { DataFormat::Raw }, level),
        }
    }
}

/// What the configuration of a run means for the emitted stream (used by C10's mode clauses).
pub struct Effective {
    pub zlib: bool,
    pub level: i64,
    pub strategy: i64,
    pub window_bits: i64,
}

pub fn effective(s: &Script) -> Effective {
    let ctor = s.c("ctor");
    let mut zlib = s.c("zlib") != 0;
    let mut level = s.c("level");
    let mut strategy = s.c("strategy");
    let mut wb = s.c_or("window_bits", 15);
    match ctor {
        2 => {
            zlib = true;
            level = 4;
            strategy = 0;
            wb = 15;
        }
        3 => {
            level = match level {
                0 | 1 | 9 | 10 | 6 => level,
                _ => 6,
            };
            strategy = 0;
            wb = 15;
        }
        1 | 4 => {
            if level < 0 {
                level = 6;
            }
            wb = 15;
        }
        _ => {
            wb = wb.min(15);
        }
    }
    level = level.min(10);
    if level == 0 {
        strategy = -1; // stored only; strategy is not applied at level 0
    }
    if s.c("setter") != 0 || s.c("setter2") != 0 {
        // a setter replaces level and strategy (or refuses to, when the window set at creation is too small):
        // the format is asked from the object, the mode clauses are not evaluated
        let mut d = construct(s);
        apply_setters(s, &mut d);
        zlib = d.data_format() == DataFormat::Zlib;
        level = -2;
        strategy = -2;
    }
    Effective { zlib, level, strategy, window_bits: wb }
}

pub struct PipeRun {
    pub out: Vec<u8>,
    /// input reported consumed, in order
    pub consumed: usize,
    pub done: bool,
    pub put_failed: bool,
    pub hash: u64,
    pub suspensions: u32,
    pub flushes: u32,
    /// (output offset, input offset) of qualified Full flushes
    pub full_points: Vec<(usize, usize)>,
    pub calls: u32,
}

/// Drive the real compressor over `plain` with the schedule `ops` = [[chunk, out_len, flush]].
pub fn run_pipe(s: &Script, plain: &[u8], ops: &[Vec<i64>], st: &mut Stats) -> Result<PipeRun, Violation> {
    let clauses = s.c("clauses");
    let driver = s.c("driver");
    let putfail = s.c("putfail");
    let cp: &str = &s.prop;
    let mut d = make_compressor(s);
    if s.c("pre_reset") != 0 {
        // the compressor has been used for an earlier (abandoned or finished) stream and was reset
        let junk = &plain[..plain.len().min(s.c("pre_reset") as usize)];
        let mut tmp = vec![0u8; junk.len() + 400];
        let _ = compress(&mut d, junk, &mut tmp, match s.c("pre_reset") % 4 {
            0 => TDEFLFlush::Finish,
            1 => TDEFLFlush::Sync,
            // abandoned with tokens recorded but no block emitted yet
            2 => TDEFLFlush::None,
            _ => TDEFLFlush::Full,
        });
        d.reset();
        st.inc("probe.compressor_reused_after_reset");
        if s.c("setter_before_reset") == 0 {
            apply_setters(s, &mut d);
        }
    }
    if s.c("setter") != 0 {
        st.inc("probe.setter_used");
    }
    let zlib_fmt = d.data_format() == DataFormat::Zlib;
    let adler_on = zlib_fmt || (d.flags() as u32 & miniz_oxide::deflate::core::deflate_flags::TDEFL_COMPUTE_ADLER32) != 0;
    let n = plain.len();
    let mut delivered = 0usize;
    let mut pos = 0usize;
    let mut sink: Vec<u8> = Vec::new();
    let mut outbuf: Vec<u8> = Vec::new();
    let mut h = Hasher::new();
    let mut finishing = false;
    let mut opi = 0usize;
    let mut calls = 0u32;
    let mut tail_calls = 0usize;
    let mut susp = 0u32;
    let mut flushes = 0u32;
    let mut clean_before = true;
    let mut full_points = Vec::new();
    let mut running_adler = 1u32;
    let mut done = false;
    let mut put_failed = false;
    let mut cb_calls = 0i64;
    let mut had_pending = false;
    let tail_cap = 64 + n / 1000 + n / 3 + if s.c_or("tail_out", 4096) < 64 { 2 * n + 600 } else { 0 };
    loop {
        let (chunk, out_len, mut fl) = if opi < ops.len() {
            let o = &ops[opi];
            (o[0].max(0) as usize, o[1].max(0) as usize, o.get(2).copied().unwrap_or(0))
        } else {
            tail_calls += 1;
            if tail_calls > tail_cap {
                return viol(&format!("{}.liveness", cp), format!("Finish loop did not reach Done within {} calls ({} of {} consumed, {} bytes out)", tail_cap, pos, n, sink.len()));
            }
            (n, s.c_or("tail_out", 4096).max(1) as usize, 4)
        };
        opi += 1;
        delivered = (delivered + chunk).min(n);
        if finishing {
            fl = 4;
        }
        if fl == 4 {
            finishing = true;
        }
        let inb = &plain[pos..delivered];
        let (status_ok, status_done, cin, cout);
        let sink_before = sink.len();
        match driver {
            1 => {
                // callback sink; the k-th invocation fails when putfail = k
                let mut failed_now = false;
                let (stt, ci) = compress_to_output(&mut d, inb, tdefl_flush_of(fl), |b: &[u8]| {
                    cb_calls += 1;
                    if putfail != 0 && cb_calls == putfail {
                        failed_now = true;
                        return false;
                    }
                    sink.extend_from_slice(b);
                    true
                });
                calls += 1;
                if failed_now {
                    st.inc("fault.putfail");
                    if stt != TDEFLStatus::PutBufFailed {
                        return viol(&format!("{}.putfail_status", cp), format!("callback returned false but compress_to_output returned {:?}", stt));
                    }
                    put_failed = true;
                    // every later call is refused
                    let (s2, c2) = compress_to_output(&mut d, inb, tdefl_flush_of(fl), |_b: &[u8]| true);
                    if s2 != TDEFLStatus::BadParam || c2 != 0 {
                        return viol(&format!("{}.after_putfail", cp), format!("call after PutBufFailed returned {:?} consumed {}", s2, c2));
                    }
                    break;
                }
                if stt == TDEFLStatus::BadParam || stt == TDEFLStatus::PutBufFailed {
                    return viol(&format!("{}.status", cp), format!("call {} ({} in, flush {}) returned {:?}", calls, inb.len(), fl, stt));
                }
                status_ok = true;
                status_done = stt == TDEFLStatus::Done;
                cin = ci;
                cout = sink.len() - sink_before;
            }
            2 => {
                if outbuf.len() < out_len {
                    outbuf.resize(out_len, 0);
                }
                let mf = match fl {
                    0..=5 => mz_flush_of(fl),
                    _ => MZFlush::None,
                };
                let res = deflate(&mut d, inb, &mut outbuf[..out_len], mf);
                calls += 1;
                cin = res.bytes_consumed;
                cout = res.bytes_written;
                if cout <= out_len {
                    sink.extend_from_slice(&outbuf[..cout]);
                }
                match res.status {
                    Ok(MZStatus::Ok) => {
                        status_ok = true;
                        status_done = false;
                    }
                    Ok(MZStatus::StreamEnd) => {
                        status_ok = true;
                        status_done = true;
                    }
                    Err(MZError::Buf) => {
                        // nothing to do (no input, no flush) or empty output: legal, no progress
                        status_ok = true;
                        status_done = false;
                    }
                    other => {
                        return viol(&format!("{}.status", cp), format!("deflate() call {} ({} in, {} out, flush {:?}) returned {:?}", calls, inb.len(), out_len, mf, other));
                    }
                }
            }
            _ => {
                if outbuf.len() < out_len {
                    outbuf.resize(out_len, 0);
                }
                let (stt, ci, co) = compress(&mut d, inb, &mut outbuf[..out_len], tdefl_flush_of(fl));
                calls += 1;
                if stt == TDEFLStatus::BadParam || stt == TDEFLStatus::PutBufFailed {
                    return viol(&format!("{}.status", cp), format!("compress call {} ({} in, {} out, flush {}) returned {:?}", calls, inb.len(), out_len, fl, stt));
                }
                status_ok = true;
                status_done = stt == TDEFLStatus::Done;
                cin = ci;
                cout = co;
                if cout <= out_len {
                    sink.extend_from_slice(&outbuf[..cout]);
                }
            }
        }
        let _ = status_ok;
        st.inc("calls");
        st.inc("steps");
        h.u(status_done as u64);
        h.u(cin as u64);
        h.u(cout as u64);
        if crate::dec::trace() {
            eprintln!("  pipe call {}: driver {} in {} out_len {} flush {} -> done {} consumed {} written {}", calls, driver, inb.len(), out_len, fl, status_done, cin, cout);
        }
        if cin > inb.len() {
            return viol(&format!("{}.consumed_le_offered", cp), format!("call {}: consumed {} > offered {}", calls, cin, inb.len()));
        }
        if driver != 1 && cout > out_len {
            return viol(&format!("{}.written_le_granted", cp), format!("call {}: written {} > granted {}", calls, cout, out_len));
        }
        // running checksum of the compressor == adler32 of all input consumed so far (C16)
        if clauses & PC_C16 != 0 && adler_on {
            running_adler = adler32_def(running_adler, &plain[pos..pos + cin]);
            if d.adler32() != running_adler {
                return viol("C16.compressor_running_adler", format!("after call {}: CompressorOxide::adler32() = {:#010x}, Adler-32 of the {} bytes consumed so far = {:#010x}", calls, d.adler32(), pos + cin, running_adler));
            }
        }
        pos += cin;
        // reach probes
        if driver != 1 && cout == out_len && (pos < delivered) {
            st.inc("probe.out_full_with_input_left");
            had_pending = true;
        }
        if driver != 1 && out_len >= 85196 {
            st.inc("probe.direct_write_path");
        }
        if fl != 0 && fl != 4 {
            flushes += 1;
            st.inc(match fl {
                1 => "probe.flush.partial",
                2 => "probe.flush.sync",
                3 => "probe.flush.full",
                5 => "probe.flush.partial_opt",
                6 => "probe.flush.sync_opt",
                _ => "probe.flush.nosync",
            });
        }
        // ---- C12: qualified flush => everything so far decodable from the emitted prefix alone ----
        let has_space = driver == 1 || cout < out_len;
        if clauses & PC_C12 != 0 && !status_done && !finishing {
            let is_mz = driver == 2;
            let eff_fl = if is_mz && fl >= 5 { 0 } else { fl };
            let sampled = flushes <= 24 || calls % 4099 == 0 || ops.len().saturating_sub(opi) < 24;
            if (eff_fl == 1 || eff_fl == 2 || eff_fl == 3) && clean_before && cin == inb.len() && has_space && sampled {
                st.inc("probe.qualified_flush");
                let o = Opts { zlib: zlib_fmt, ring: None, tokens: false, max_out: 64 << 20, ignore_adler: true };
                let v = refinf::inflate(&sink, &o);
                let ok = matches!(v.verdict, Verdict::Short) && v.out[..] == plain[..pos];
                if !ok {
                    return viol(
                        "C12.prefix_decodable",
                        format!("after flush {} at call {} ({} bytes in so far, {} bytes out): the emitted prefix decodes to {} bytes (verdict {:?}), equal-prefix {}", fl, calls, pos, sink.len(), v.out.len(), v.verdict, v.out.len() <= pos && v.out[..] == plain[..v.out.len()]),
                    );
                }
                if eff_fl == 2 || eff_fl == 3 {
                    if !sink.ends_with(&[0, 0, 0xFF, 0xFF]) {
                        return viol("C12.sync_marker", format!("flush {} at call {}: output does not end with 00 00 FF FF", fl, calls));
                    }
                    if d.unwritten_bit_count() != 0 {
                        return viol("C12.byte_aligned", format!("flush {} at call {}: unwritten_bit_count() = {}", fl, calls, d.unwritten_bit_count()));
                    }
                }
                if eff_fl == 3 {
                    full_points.push((sink.len(), pos));
                }
            }
        }
        clean_before = has_space;
        if status_done {
            if !finishing {
                return viol(&format!("{}.done_without_finish", cp), format!("call {} returned Done/StreamEnd without Finish", calls));
            }
            done = true;
            break;
        }
        if finishing && driver != 1 && out_len > 0 && cout == 0 && cin == 0 && opi > ops.len() {
            return viol(&format!("{}.finish_progress", cp), format!("Finish call {} with {} bytes of space wrote nothing, consumed nothing and did not end the stream", calls, out_len));
        }
        susp += 1;
    }
    if had_pending {
        st.inc("probe.pending_output_drained");
    }
    h.bytes(&sink);
    h.u(pos as u64);
    Ok(PipeRun { out: sink, consumed: pos, done, put_failed, hash: h.0, suspensions: susp, flushes, full_points, calls })
}

pub fn exec(s: &Script, st: &mut Stats) -> Result<RunInfo, Violation> {
    let count = s.c("phase_count").min(512);
    if count > 0 {
        // phase sweep: the same data behind r zero bytes for every r in [phase_from, phase_from + count):
        // a long run costs the compressor almost no LZ codes, so r shifts the instant at which the LZ code
        // buffer fills (and a block is closed by the compressor itself) through every phase of the
        // 4096-byte look-ahead rounds and of the call boundaries
        let body = s.blob("plain");
        let from = s.c("phase_from").max(0) as usize;
        let mut hh = Hasher::new();
        let mut nontrivial = false;
        let mut plain: Vec<u8> = Vec::with_capacity(from + count as usize + body.len());
        for r in from..from + count as usize {
            plain.clear();
            if s.c("phase_noise") != 0 {
                // two-dimensional phase: l literals (one code byte, one flag bit each) and m short matches (three code
                // bytes, one flag bit each) in front, so that both the fill level of the code buffer and the position
                // inside the current flag byte take every combination at the instant the buffer gets tight
                let pre = s.blob("phase_prefix");
                let idx = r - from;
                let (l, m) = (idx % 32, idx / 32);
                plain.extend_from_slice(&pre[..l.min(pre.len())]);
                let w = [pre[40], pre[41] ^ 0x5A, pre[42], pre[43] ^ 0xA5];
                plain.extend_from_slice(&w);
                for j in 0..m {
                    plain.extend_from_slice(&w);
                    plain.push(pre[44 + j % 64].wrapping_add(j as u8));
                }
            } else {
                plain.resize(r, s.c("phase_byte") as u8);
            }
            plain.extend_from_slice(body);
            let ri = exec_one(s, &plain, st).map_err(|mut v| {
                v.detail = format!("[phase sweep, prefix length {}] {}", r, v.detail);
                v
            })?;
            hh.u(ri.hash);
            nontrivial |= ri.nontrivial;
        }
        st.add("probe.phase_sweep_phases", count as u64);
        return Ok(RunInfo { hash: hh.0, nontrivial });
    }
    let fsw = s.c("flush_sweep");
    if fsw > 0 && s.blob("plain").len() <= 4096 {
        // a flush of mode `fsw` (or a bare call boundary when fsw = 8) after every single input position of a
        // short input, constant grant for all calls
        let plain = s.blob("plain");
        let grant = s.c_or("sweep_grant", 1 << 20);
        let mut hh = Hasher::new();
        let mut s2 = s.clone();
        for p in 0..=plain.len() {
            s2.ops = vec![vec![p as i64, grant, if fsw == 8 { 0 } else { fsw }], vec![(plain.len() - p) as i64, grant, s.c("sweep_second")]];
            let ri = exec_one(&s2, plain, st).map_err(|mut v| {
                v.detail = format!("[flush sweep, flush {} after input position {}] {}", fsw, p, v.detail);
                v
            })?;
            hh.u(ri.hash);
        }
        st.add("probe.flush_sweep_positions", plain.len() as u64 + 1);
        return Ok(RunInfo { hash: hh.0, nontrivial: true });
    }
    exec_one(s, s.blob("plain"), st)
}

fn exec_one(s: &Script, plain_full: &[u8], st: &mut Stats) -> Result<RunInfo, Violation> {
    let clauses = s.c("clauses");
    let cp: &str = &s.prop;
    let run = if s.c("driver") == 3 {
        // one-shot emitters (C10): compress_to_vec / compress_to_vec_zlib
        let lvl = s.c("level").clamp(0, 255) as u8;
        let out = if s.c("zlib") != 0 { miniz_oxide::deflate::compress_to_vec_zlib(plain_full, lvl) } else { miniz_oxide::deflate::compress_to_vec(plain_full, lvl) };
        st.inc("calls");
        st.inc("steps");
        let mut h = Hasher::new();
        h.bytes(&out);
        PipeRun { out, consumed: plain_full.len(), done: true, put_failed: false, hash: h.0, suspensions: 0, flushes: 0, full_points: Vec::new(), calls: 1 }
    } else {
        run_pipe(s, plain_full, &s.ops, st)?
    };
    let plain = &plain_full[..run.consumed];
    let eff = effective(s);
    let mut hh = Hasher::new();
    hh.u(run.hash);
    let nontrivial = run.suspensions > 0 || run.flushes > 0 || run.put_failed;
    st.add("suspensions", run.suspensions as u64);
    let want_tokens = clauses & (PC_C10 | PC_C11) != 0;
    let o = Opts { zlib: eff.zlib, ring: None, tokens: want_tokens, max_out: 64 << 20, ignore_adler: false };
    let v = refinf::inflate(&run.out, &o);
    if run.put_failed {
        // what reached the sink before the failure is a decodable prefix (DESIGN 3.4)
        let okp = !matches!(v.verdict, Verdict::Invalid(_)) && v.out.len() <= plain_full.len() && v.out[..] == plain_full[..v.out.len()];
        if !okp {
            return viol(&format!("{}.prefix_after_putfail", cp), format!("bytes handed to the sink before PutBufFailed do not decode to a prefix of the input (verdict {:?}, {} bytes)", v.verdict, v.out.len()));
        }
        return Ok(RunInfo { hash: hh.0, nontrivial });
    }
    if !run.done {
        return viol(&format!("{}.reaches_done", cp), "schedule ended without Done".into());
    }
    // block type probes
    for b in &v.blocks {
        st.inc(match b.btype {
            0 => "probe.block.stored",
            1 => "probe.block.fixed",
            _ => "probe.block.dynamic",
        });
        if want_tokens && b.tok_end - b.tok_start > 21000 {
            st.inc("probe.block.lz_buf_tight");
        }
    }
    if v.blocks.len() >= 2 {
        st.inc("probe.multi_block_run");
    }
    // ---- the one stream decodes to exactly the concatenated input (C02 / C10(1) / C09 producer) ----
    match v.verdict {
        Verdict::Valid => {}
        Verdict::Invalid(rule) if rule.starts_with("zlib.") && clauses & PC_C09 != 0 => {
            let cl = if rule == "zlib.adler32" { "C09.trailer_is_adler32_of_input" } else { "C09.header_valid" };
            return viol(cl, format!("zlib output violates '{}': header {:02x} {:02x}, trailer {:#010x}, adler32 of decoded data {:#010x}", rule, v.cmf, v.flg, v.adler_stored, v.adler_calc));
        }
        other => {
            let cl = if clauses & PC_C10 != 0 { "C10.accepted_by_reference_decoder".to_string() } else if clauses & PC_C09 != 0 { "C09.stream_valid".to_string() } else { format!("{}.output_is_one_valid_stream", cp) };
            return viol(&cl, format!("reference decoder verdict {:?} at bit {} of {} output bytes ({} input bytes consumed)", other, v.at_bit, run.out.len(), run.consumed));
        }
    }
    if v.out != plain {
        let nn = v.out.len().min(plain.len());
        let idx = (0..nn).find(|&i| v.out[i] != plain[i]).unwrap_or(nn);
        let cl = if clauses & PC_C10 != 0 { "C10.decodes_to_input".to_string() } else if clauses & PC_C09 != 0 { "C09.stream_valid".to_string() } else { format!("{}.decodes_to_input", cp) };
        return viol(&cl, format!("output decodes to {} bytes, input consumed {} bytes, first difference at {}", v.out.len(), plain.len(), idx));
    }
    if v.consumed != run.out.len() {
        let cl = if clauses & PC_C10 != 0 { "C10.exactly_one_stream".to_string() } else { format!("{}.exactly_one_stream", cp) };
        return viol(&cl, format!("stream ends after {} bytes but {} bytes were emitted", v.consumed, run.out.len()));
    }
    if clauses & PC_C09 != 0 && eff.zlib {
        // explicit producer-side clauses (also implied by the decode above)
        let cmf = run.out[0] as u32;
        let flg = run.out[1] as u32;
        if cmf & 15 != 8 || (cmf >> 4) > 7 || flg & 0x20 != 0 || (cmf * 256 + flg) % 31 != 0 {
            return viol("C09.header_valid", format!("header {:02x} {:02x}", cmf, flg));
        }
        let t = &run.out[run.out.len() - 4..];
        let tr = u32::from_be_bytes([t[0], t[1], t[2], t[3]]);
        let want = adler32_def(1, plain);
        if tr != want {
            return viol("C09.trailer_is_adler32_of_input", format!("trailer {:#010x}, Adler-32 of input {:#010x}", tr, want));
        }
        st.inc("probe.zlib_frames_checked");
    }
    // ---- C12 (c): after a qualified Full flush the remainder is decodable on its own ----
    if clauses & PC_C12 != 0 {
        for &(o_off, i_off) in &run.full_points {
            let end = if eff.zlib { run.out.len() - 4 } else { run.out.len() };
            if o_off > end {
                continue;
            }
            let o2 = Opts { zlib: false, ring: None, tokens: false, max_out: 64 << 20, ignore_adler: true };
            let v2 = refinf::inflate(&run.out[o_off..end], &o2);
            if v2.verdict != Verdict::Valid || v2.out[..] != plain[i_off..] {
                return viol("C12.full_flush_cuts_history", format!("remainder of the stream after the full flush at output offset {} (input offset {}) is not decodable on its own: {:?} at bit {}, {} bytes vs {} expected", o_off, i_off, v2.verdict, v2.at_bit, v2.out.len(), plain.len() - i_off));
            }
            st.inc("probe.full_flush_suffix_decoded");
        }
        // (d) NoSync followed by Sync == Sync alone
        let k = s.c_or("nosync_pair_at", -1);
        if k >= 0 && (k as usize) + 1 < s.ops.len() {
            let mut ops2 = s.ops.clone();
            let ns = ops2.remove(k as usize);
            ops2[k as usize][0] += ns[0];
            let r2 = run_pipe(s, plain_full, &ops2, st)?;
            if r2.out != run.out {
                return viol("C12.nosync_then_sync_equals_sync", format!("NoSync flush followed by Sync gives {} bytes, the Sync flush alone {} bytes (or different content)", run.out.len(), r2.out.len()));
            }
            st.inc("probe.nosync_pair_compared");
            hh.u(r2.hash);
        }
    }
    // ---- C10 ----
    if clauses & PC_C10 != 0 {
        // second independent decoder
        let z = zlibffi::zinflate(&run.out, if eff.zlib { 15 } else { -15 }, 64 << 20);
        if z.ret != zlibffi::Z_STREAM_END || z.out != plain || z.total_in != run.out.len() {
            return viol("C10.accepted_by_zlib", format!("system zlib: ret {} ({}) out {} bytes (expected {}), total_in {} of {}", z.ret, z.msg, z.out.len(), plain.len(), z.total_in, run.out.len()));
        }
        // with_params(window_bits < 12) replaces the requested strategy by RLE "as a simple way to
        // implement smaller window sizes" (deflate/core.rs limit_level_by_window_bits): two requests
        // conflict and the window wins, so the requested strategy's clauses do not apply there.
        let requested_applies = !(s.c("ctor") == 0 && eff.window_bits < 12);
        for b in &v.blocks {
            if b.btype == 2 && (b.hlit > 286 || b.hdist > 30 || b.hclen > 19) {
                return viol("C10.header_counts", format!("HLIT {} HDIST {} HCLEN {}", b.hlit, b.hdist, b.hclen));
            }
            // empty fixed blocks are the Partial-flush marker, not data
            let carries_data = b.out_end > b.out_start;
            if eff.level == 0 && b.btype != 0 && carries_data {
                return viol("C10.level0_stored_only", format!("level 0 emitted a block of type {} carrying {} bytes", b.btype, b.out_end - b.out_start));
            }
            if eff.strategy == 4 && b.btype == 2 && requested_applies {
                return viol("C10.fixed_no_dynamic", "fixed strategy emitted a dynamic block".into());
            }
        }
        if v.n_matches > 0 {
            st.inc("probe.runs_with_matches");
        }
        if requested_applies {
            match eff.strategy {
                2 => {
                    if v.n_matches > 0 {
                        return viol("C10.huffman_only_no_matches", format!("HuffmanOnly emitted {} matches", v.n_matches));
                    }
                }
                3 => {
                    if v.max_dist > 1 {
                        let t = v.tokens.iter().find(|t| matches!(t, Tok::Match { dist, .. } if *dist > 1));
                        return viol("C10.rle_distance_one", format!("RLE strategy (level {}) emitted {:?}", eff.level, t));
                    }
                }
                1 => {
                    if v.n_matches > 0 && v.min_match_len < 5 {
                        return viol("C10.filtered_min_length", format!("Filtered strategy emitted a match of length {}", v.min_match_len));
                    }
                }
                _ => {}
            }
        }
        if clauses & PC_REDUNDANCY != 0 {
            // input is X || X with X incompressible
            let lim = (plain.len() as f64 * 0.70) as usize;
            let half = plain.len() / 2;
            let premise = plain.len() % 2 == 0 && half >= 512 && plain[..half] == plain[half..];
            if premise && run.consumed == plain_full.len() && run.out.len() >= lim {
                return viol("C10.redundancy_exploited", format!("X||X with |X| = {} compressed to {} bytes at level {} strategy {} (>= 0.70 of {})", plain.len() / 2, run.out.len(), eff.level, eff.strategy, plain.len()));
            }
            st.inc("probe.redundancy_cases");
        }
    }
    // ---- C11 ----
    if clauses & PC_C11 != 0 && eff.zlib {
        let w = s.c_or("window_bits", 15);
        let cinfo = (run.out[0] >> 4) as i64;
        if cinfo + 8 > w.max(8).min(15) {
            return viol("C11.declared_window_le_requested", format!("window_bits {} but header declares 2^{}", w, cinfo + 8));
        }
        let declared = 1usize << (cinfo + 8);
        if v.max_dist > declared {
            let t = v.tokens.iter().find(|t| matches!(t, Tok::Match { dist, .. } if (*dist as usize) > declared));
            return viol("C11.distance_within_declared_window", format!("window_bits {} level {} strategy {}: header declares a {}-byte window but the stream contains {:?}", w, s.c("level"), s.c("strategy"), declared, t));
        }
        // a decoder that allocates only the declared window: zlib told to trust the header
        let z = zlibffi::zinflate(&run.out, 0, 64 << 20);
        if z.ret != zlibffi::Z_STREAM_END || z.out != plain {
            return viol("C11.window_limited_zlib_decodes", format!("zlib inflateInit2(0): ret {} ({}), {} bytes", z.ret, z.msg, z.out.len()));
        }
        // the crate's own decoder with a ring of exactly the declared size
        let ring = vec![0u8; declared];
        let ccfg = crate::dec::CoreCfg { zlib: true, ring: Some(declared), ring_init: &ring, flat_cap: 0, hasmore: 0, extra_flags: 0, canary: false, probe: false, expect: plain, expect_exact: true, tail_cap: plain.len() / declared + 8, clause_prefix: "C11", snap: None, adler_probe: false, post_done: false, prelude: None };
        let r = crate::dec::run_core(&run.out, &ccfg, &[], st)?;
        if r.term != crate::dec::Term::Done || r.out != plain {
            return viol("C11.window_limited_ring_decodes", format!("crate decoder with a {}-byte ring ended with {:?} after {} of {} bytes", declared, r.term, r.out.len(), plain.len()));
        }
        if v.max_dist > 256 {
            st.inc("probe.far_match_runs");
        }
        st.inc(&format!("probe.window_bits.{}", w));
    }
    Ok(RunInfo { hash: hh.0, nontrivial })
}
