//! Batch runner: parent hands blocks of run indices to worker *processes* (DESIGN 2.2, 2.3).
//! The outcome of run i is a function of (VERIF_SEED, check id, i) only, so results do not depend on
//! the number of workers. Process isolation lets the parent observe abort / signal / hang.

use crate::json::{self, J};
use crate::rng::{run_seed, Hasher, Rng};
use crate::script::{Script, Stats, Violation};
use std::collections::{BTreeMap, HashSet};
use std::io::{BufRead, BufReader, Write};
use std::panic::{catch_unwind, AssertUnwindSafe};
use std::process::{Command, Stdio};
use std::sync::mpsc;
use std::time::{Duration, Instant};

#[derive(Clone, Copy, PartialEq, Eq, Debug)]
pub enum Tier {
    Quick,
    Thorough,
}

pub struct RunInfo {
    pub hash: u64,
    /// had at least one suspension, fault, flush, snapshot ... (per-scenario rule)
    pub nontrivial: bool,
}

pub struct CheckDef {
    pub id: &'static str,
    pub level: &'static str,
    pub runs_quick: u64,
    pub runs_thorough: u64,
    pub block: u64,
    pub gen: fn(&mut Rng, u64, Tier) -> Script,
    pub exec: fn(&Script, &mut Stats) -> Result<RunInfo, Violation>,
    pub rule: &'static str,
    /// cfg keys the shrinker may lower (every smaller value must stay inside the generator's domain)
    pub shrink_cfg: &'static [&'static str],
    /// whether blobs may be shortened (only where no cfg value states a fact about the blob)
    pub shrink_blobs: bool,
    pub assumptions: &'static [&'static str],
}

thread_local! {
    static LAST_PANIC: std::cell::RefCell<String> = std::cell::RefCell::new(String::new());
}

pub fn install_panic_hook() {
    std::panic::set_hook(Box::new(|info| {
        let loc = info.location().map(|l| format!("{}:{}", l.file(), l.line())).unwrap_or_default();
        let msg = if let Some(s) = info.payload().downcast_ref::<&str>() {
            s.to_string()
        } else if let Some(s) = info.payload().downcast_ref::<String>() {
            s.clone()
        } else {
            "?".to_string()
        };
        LAST_PANIC.with(|p| *p.borrow_mut() = format!("{} @ {}", msg, loc));
    }));
}

pub enum ExecOut {
    Ok(RunInfo),
    Viol(Violation),
    /// panic located in harness code: harness error, never a verdict
    HarnessPanic(String),
}

/// Execute one script, converting a panic inside the library into a violation of `<prop>.no_panic`.
pub fn exec_guarded(def: &CheckDef, s: &Script, st: &mut Stats) -> ExecOut {
    LAST_PANIC.with(|p| p.borrow_mut().clear());
    let r = catch_unwind(AssertUnwindSafe(|| (def.exec)(s, st)));
    match r {
        Ok(Ok(i)) => ExecOut::Ok(i),
        Ok(Err(mut v)) => {
            // a scenario shared between checks names its clauses after its home property; the clause is
            // reported under the property whose check is running (e.g. C18's mz_deflateReset object uses the
            // lock-step C ABI scenario: "C17.same_bytes_as_rust" becomes "C18.cabi.same_bytes_as_rust")
            if let Some((pfx, rest)) = v.clause.split_once('.') {
                if pfx != def.id && pfx.len() == 3 && pfx.starts_with('C') {
                    v.clause = format!("{}.{}.{}", def.id, s.scen, rest);
                }
            }
            ExecOut::Viol(v)
        }
        Err(_) => {
            let m = LAST_PANIC.with(|p| p.borrow().clone());
            let loc = m.rsplit(" @ ").next().unwrap_or("");
            if loc.starts_with("src/") || m.starts_with("HARNESS") {
                ExecOut::HarnessPanic(m)
            } else {
                // the violation class of a panic is (file, message with numbers blanked): the shrinker must
                // not morph one panic into another, and known findings must not depend on line numbers
                let file = loc.rsplit(':').nth(1).unwrap_or(loc);
                let file = file.rsplit("/src/").next().unwrap_or(file);
                let msg = m.split(" @ ").next().unwrap_or("");
                let mut kind = String::new();
                let mut last_hash = false;
                for ch in msg.chars().take(60) {
                    if ch.is_ascii_digit() {
                        if !last_hash {
                            kind.push('#');
                        }
                        last_hash = true;
                    } else {
                        kind.push(ch);
                        last_hash = false;
                    }
                }
                ExecOut::Viol(Violation { clause: format!("{}.no_panic[{}: {}]", def.id, file, kind.trim()), detail: m })
            }
        }
    }
}

fn size_class(v: i64) -> u64 {
    match v {
        i64::MIN..=-1 => 15,
        0 => 0,
        1 => 1,
        2 => 2,
        3 => 3,
        4..=13 => 4,
        14..=257 => 5,
        258..=259 => 6,
        260..=4095 => 7,
        4096..=32767 => 8,
        32768..=85195 => 9,
        _ => 10,
    }
}

/// Shape fingerprint: op kinds / size classes / fault kinds / config, not raw bytes (DESIGN 2.7).
pub fn fingerprint(s: &Script) -> u64 {
    let mut h = Hasher::new();
    h.bytes(s.scen.as_bytes());
    for (k, v) in &s.cfg {
        if k == "seed" || k.ends_with("_seed") || k == "ringfill" {
            continue;
        }
        h.bytes(k.as_bytes());
        h.u(size_class(*v) * 1000 + if (0..64).contains(v) { *v as u64 } else { 99 });
    }
    for (k, b) in &s.blobs {
        h.bytes(k.as_bytes());
        h.u(size_class(b.len() as i64));
    }
    for f in &s.faults {
        h.u(0xF000 + f.first().copied().unwrap_or(0) as u64);
    }
    h.u(size_class(s.ops.len() as i64));
    for op in s.ops.iter().take(6) {
        let mut x = 0u64;
        for v in op {
            x = x * 16 + size_class(*v);
        }
        h.u(x);
    }
    h.0
}

// ---------------------------------------------------------------------------------------------
// shrinker
// ---------------------------------------------------------------------------------------------

pub fn shrink(def: &CheckDef, s0: &Script, clause: &str) -> Script {
    let start = Instant::now();
    let mut best = s0.clone();
    let mut steps = 0u64;
    let mut scratch = Stats::default();
    let mut fails = |c: &Script, steps: &mut u64| -> bool {
        *steps += 1;
        match exec_guarded(def, c, &mut scratch) {
            ExecOut::Viol(v) => v.clause == clause,
            _ => false,
        }
    };
    let budget_ok = |steps: u64| steps < 2000 && start.elapsed() < Duration::from_secs(20);
    let mut progress = true;
    while progress && budget_ok(steps) {
        progress = false;
        // drop faults
        let mut i = 0;
        while i < best.faults.len() && budget_ok(steps) {
            let mut c = best.clone();
            c.faults.remove(i);
            if fails(&c, &mut steps) {
                best = c;
                progress = true;
            } else {
                i += 1;
            }
        }
        // drop op ranges (halving)
        let mut chunk = (best.ops.len() / 2).max(1);
        while chunk >= 1 && budget_ok(steps) {
            let mut i = 0;
            while i < best.ops.len() && budget_ok(steps) {
                let mut c = best.clone();
                let end = (i + chunk).min(c.ops.len());
                c.ops.drain(i..end);
                if fails(&c, &mut steps) {
                    best = c;
                    progress = true;
                } else {
                    i += chunk;
                }
            }
            if chunk == 1 {
                break;
            }
            chunk /= 2;
        }
        // shrink op integers
        for i in 0..best.ops.len() {
            for k in 0..best.ops[i].len() {
                if !budget_ok(steps) {
                    break;
                }
                let v = best.ops[i][k];
                for cand in [0, 1, 2, 3, v / 2] {
                    if cand >= v || cand < 0 {
                        continue;
                    }
                    let mut c = best.clone();
                    c.ops[i][k] = cand;
                    if fails(&c, &mut steps) {
                        best = c;
                        progress = true;
                        break;
                    }
                }
            }
        }
        // shorten blobs from the tail, then from the head
        for bi in 0..(if def.shrink_blobs { best.blobs.len() } else { 0 }) {
            let mut cut = best.blobs[bi].1.len() / 2;
            while cut >= 1 && budget_ok(steps) {
                let len = best.blobs[bi].1.len();
                if cut > len {
                    cut = len;
                }
                if cut == 0 {
                    break;
                }
                let mut c = best.clone();
                c.blobs[bi].1.truncate(len - cut);
                if fails(&c, &mut steps) {
                    best = c;
                    progress = true;
                    continue;
                }
                let mut c = best.clone();
                c.blobs[bi].1.drain(..cut);
                if fails(&c, &mut steps) {
                    best = c;
                    progress = true;
                    continue;
                }
                cut /= 2;
            }
        }
        // lower config values
        for key in def.shrink_cfg {
            if !budget_ok(steps) {
                break;
            }
            let v = best.c(key);
            for cand in [0, 1, v / 2, v - 1] {
                if cand >= v || cand < 0 {
                    continue;
                }
                let mut c = best.clone();
                c.set(key, cand);
                if fails(&c, &mut steps) {
                    best = c;
                    progress = true;
                    break;
                }
            }
        }
    }
    best.minimised = true;
    best.shrink_steps = steps;
    best
}


/// Known findings handed over by the check script (VERIF_KNOWN = JSON array of
/// {id, property, clause, predicate}); a violation matching one is recorded (with one witness replay
/// per finding) and the batch continues, so that a known finding never hides unexplored runs.
pub fn load_known() -> Vec<J> {
    match std::env::var("VERIF_KNOWN") {
        Ok(t) if !t.is_empty() => match json::parse(&t) {
            Ok(J::Arr(a)) => a,
            _ => Vec::new(),
        },
        _ => Vec::new(),
    }
}

pub fn known_match<'a>(known: &'a [J], prop: &str, clause: &str, s: &Script) -> Option<&'a J> {
    known.iter().find(|k| {
        if k.get("property").and_then(|x| x.as_str()) != Some(prop) || k.get("clause").and_then(|x| x.as_str()) != Some(clause) {
            return false;
        }
        if let Some(J::Obj(p)) = k.get("predicate") {
            for (key, want) in p {
                let have = s.c(key);
                match want {
                    J::Int(w) => {
                        if have != *w {
                            return false;
                        }
                    }
                    J::Obj(_) => {
                        if let Some(mn) = want.get("min").and_then(|x| x.as_i64()) {
                            if have < mn {
                                return false;
                            }
                        }
                        if let Some(mx) = want.get("max").and_then(|x| x.as_i64()) {
                            if have > mx {
                                return false;
                            }
                        }
                        if let Some(J::Arr(xs)) = want.get("in") {
                            if !xs.iter().any(|x| x.as_i64() == Some(have)) {
                                return false;
                            }
                        }
                    }
                    _ => return false,
                }
            }
        }
        true
    })
}

// ---------------------------------------------------------------------------------------------
// worker
// ---------------------------------------------------------------------------------------------

/// replay files of the non-default build flavours carry the flavour in their name
pub fn build_tag() -> &'static str {
    match crate::BUILD {
        "rel" => "",
        "dbg" => "-dbg",
        _ => "-simd",
    }
}

pub fn replay_dir() -> String {
    std::env::var("VERIF_REPLAY_DIR").unwrap_or_else(|_| "/verif/replays".to_string())
}

pub struct WorkerArgs {
    pub seed: u64,
    pub tier: Tier,
    pub total: u64,
    pub workers: u64,
    pub id: u64,
    pub start_block: u64,
    pub out: String,
    pub careful_block: Option<u64>,
}

pub fn total_runs(def: &CheckDef, tier: Tier) -> u64 {
    let base = match tier {
        Tier::Quick => def.runs_quick,
        Tier::Thorough => def.runs_thorough,
    };
    match std::env::var("VERIF_RUNS_SCALE").ok().and_then(|s| s.parse::<f64>().ok()) {
        Some(f) => ((base as f64 * f) as u64).max(1),
        None => base,
    }
}

pub fn gen_script(def: &CheckDef, seed: u64, i: u64, tier: Tier) -> Script {
    let mut rng = Rng::new(run_seed(seed, def.id, i));
    let mut s = (def.gen)(&mut rng, i, tier);
    s.seed = seed;
    s.index = i;
    s.prop = def.id.to_string();
    s
}

pub fn worker(def: &CheckDef, a: &WorkerArgs) -> i32 {
    install_panic_hook();
    let stdout = std::io::stdout();
    let mut stats = Stats::default();
    let mut fps: HashSet<u64> = HashSet::new();
    let mut blocks: Vec<(u64, u64)> = Vec::new();
    let mut viols: Vec<J> = Vec::new();
    let known = load_known();
    let mut known_hits: BTreeMap<String, (u64, String, String)> = BTreeMap::new();
    let mut samples: Vec<J> = Vec::new();
    let mut nruns = 0u64;
    let mut nontrivial = 0u64;
    let nblocks = (a.total + def.block - 1) / def.block;
    let mut harness_err: Option<String> = None;
    let mut slowest: (u64, u64) = (0, 0);
    let block_iter: Vec<u64> = match a.careful_block {
        Some(b) => vec![b],
        None => (a.start_block..nblocks).filter(|j| j % a.workers == a.id).collect(),
    };
    'outer: for j in block_iter {
        {
            let mut o = stdout.lock();
            let _ = writeln!(o, "B {}", j);
            let _ = o.flush();
        }
        let mut bh = Hasher::new();
        let lo = j * def.block;
        let hi = ((j + 1) * def.block).min(a.total);
        for i in lo..hi {
            if a.careful_block.is_some() {
                let mut o = stdout.lock();
                let _ = writeln!(o, "S {}", i);
                let _ = o.flush();
            }
            let t_run = Instant::now();
            let s = gen_script(def, a.seed, i, a.tier);
            nruns += 1;
            let exec_res = exec_guarded(def, &s, &mut stats);
            let ms = t_run.elapsed().as_millis() as u64;
            if ms > slowest.0 {
                slowest = (ms, i);
            }
            match exec_res {
                ExecOut::Ok(info) => {
                    bh.u(info.hash);
                    if info.nontrivial {
                        nontrivial += 1;
                        fps.insert(fingerprint(&s));
                        if samples.len() < 3 && (i % 7 == 3 || samples.is_empty()) {
                            samples.push(s.sample_json());
                        }
                    }
                }
                ExecOut::Viol(v) => {
                    bh.u(0xDEAD);
                    if a.careful_block.is_some() {
                        // careful mode locates crashes/hangs. An ordinary violation is recorded here too, unminimised:
                        // if the normal worker died while MINIMISING it (a shrunken candidate can make the library
                        // hang), this record is what the parent reports instead of a harness error
                        if known_match(&known, def.id, &v.clause, &s).is_none() && viols.len() < 2 {
                            let mut w = s.clone();
                            w.clause = v.clause.clone();
                            w.detail = v.detail.clone();
                            let path = format!("{}/{}-s{}-i{}{}.json", replay_dir(), def.id, a.seed, i, build_tag());
                            let _ = std::fs::create_dir_all(replay_dir());
                            let _ = std::fs::write(&path, w.to_json().pretty());
                            let mut vj = J::obj();
                            vj.set("index", J::Int(i as i64));
                            vj.set("clause", J::s(&v.clause));
                            vj.set("detail", J::s(&format!("{} [not minimised: the worker did not survive minimising it]", v.detail)));
                            vj.set("path", J::s(&path));
                            vj.set("config", J::Obj(s.cfg.iter().map(|(k, v)| (k.clone(), J::Int(*v))).collect()));
                            viols.push(vj);
                        }
                        continue;
                    }
                    if let Some(kf) = known_match(&known, def.id, &v.clause, &s) {
                        let id = kf.get("id").and_then(|x| x.as_str()).unwrap_or("?").to_string();
                        let e = known_hits.entry(id.clone()).or_insert((0, String::new(), String::new()));
                        e.0 += 1;
                        if e.1.is_empty() {
                            let mut w = s.clone();
                            w.clause = v.clause.clone();
                            w.detail = v.detail.clone();
                            let path = format!("{}/{}-s{}-i{}{}.json", replay_dir(), def.id, a.seed, i, build_tag());
                            let _ = std::fs::create_dir_all(replay_dir());
                            let _ = std::fs::write(&path, w.to_json().pretty());
                            e.1 = path;
                            e.2 = v.clause.clone();
                        }
                        continue;
                    }
                    let mut m = shrink(def, &s, &v.clause);
                    // re-execute the minimised script to record its own detail text
                    let mut scratch = Stats::default();
                    let (clause, detail) = match exec_guarded(def, &m, &mut scratch) {
                        ExecOut::Viol(v2) => (v2.clause, v2.detail),
                        _ => {
                            m = s.clone();
                            (v.clause.clone(), v.detail.clone())
                        }
                    };
                    m.clause = clause.clone();
                    m.detail = detail.clone();
                    let path = format!("{}/{}-s{}-i{}{}.json", replay_dir(), def.id, a.seed, i, build_tag());
                    let _ = std::fs::create_dir_all(replay_dir());
                    if let Err(e) = std::fs::write(&path, m.to_json().pretty()) {
                        harness_err = Some(format!("cannot write replay {}: {}", path, e));
                        break 'outer;
                    }
                    let mut vj = J::obj();
                    vj.set("index", J::Int(i as i64));
                    vj.set("clause", J::s(&clause));
                    vj.set("detail", J::s(&detail));
                    vj.set("path", J::s(&path));
                    vj.set("config", J::Obj(m.cfg.iter().map(|(k, v)| (k.clone(), J::Int(*v))).collect()));
                    viols.push(vj);
                    if viols.len() >= std::env::var("VERIF_MAX_VIOL_PER_WORKER").ok().and_then(|x| x.parse().ok()).unwrap_or(2usize) {
                        break 'outer;
                    }
                }
                ExecOut::HarnessPanic(m) => {
                    harness_err = Some(format!("harness panic in run {}: {}", i, m));
                    break 'outer;
                }
            }
        }
        blocks.push((j, bh.0));
        let mut o = stdout.lock();
        let _ = writeln!(o, "E {}", j);
        let _ = o.flush();
    }
    // result file
    let mut r = J::obj();
    r.set("nruns", J::Int(nruns as i64));
    r.set("slowest_ms", J::Int(slowest.0 as i64));
    r.set("slowest_index", J::Int(slowest.1 as i64));
    r.set("nontrivial", J::Int(nontrivial as i64));
    r.set("stats", J::from_map(&stats.m));
    r.set("blocks", J::Arr(blocks.iter().map(|(j, h)| J::Arr(vec![J::Int(*j as i64), J::Str(format!("{:016x}", h))])).collect()));
    r.set("viols", J::Arr(viols));
    r.set(
        "known",
        J::Arr(
            known_hits
                .iter()
                .map(|(id, (n, path, clause))| {
                    let mut o = J::obj();
                    o.set("id", J::s(id));
                    o.set("count", J::Int(*n as i64));
                    o.set("path", J::s(path));
                    o.set("clause", J::s(clause));
                    o
                })
                .collect(),
        ),
    );
    r.set("samples", J::Arr(samples));
    if let Some(e) = &harness_err {
        r.set("harness_error", J::s(e));
    }
    let tag = match a.careful_block {
        Some(b) => format!("careful{}", b),
        None => format!("w{}-{}", a.id, a.start_block),
    };
    let _ = std::fs::write(format!("{}/res-{}.json", a.out, tag), r.to_string());
    let mut fb: Vec<u8> = Vec::with_capacity(fps.len() * 8);
    let mut v: Vec<u64> = fps.into_iter().collect();
    v.sort_unstable();
    for x in v {
        fb.extend_from_slice(&x.to_le_bytes());
    }
    let _ = std::fs::write(format!("{}/fp-{}.bin", a.out, tag), fb);
    let mut o = stdout.lock();
    let _ = writeln!(o, "F");
    let _ = o.flush();
    if harness_err.is_some() {
        2
    } else {
        0
    }
}

// ---------------------------------------------------------------------------------------------
// parent
// ---------------------------------------------------------------------------------------------

enum Msg {
    Line(u64, String),
    Eof(u64),
}

/// CPU time (user + system) a process has used so far, in seconds. The watchdog measures CPU time,
/// not wall-clock time, so that machine load can never turn a slow run into a reported hang: a run
/// that does not terminate burns CPU (the library never blocks), a run that is merely starved does not.
fn cpu_seconds(pid: u32) -> Option<f64> {
    let txt = std::fs::read_to_string(format!("/proc/{}/stat", pid)).ok()?;
    let rest = &txt[txt.rfind(')')? + 1..];
    let f: Vec<&str> = rest.split_whitespace().collect();
    let ut: u64 = f.get(11)?.parse().ok()?;
    let st: u64 = f.get(12)?.parse().ok()?;
    let hz = unsafe { libc::sysconf(libc::_SC_CLK_TCK) };
    let hz = if hz > 0 { hz as f64 } else { 100.0 };
    Some((ut + st) as f64 / hz)
}

/// Wall-clock silence after which a worker that is *not* using CPU is given up on (harness-level
/// safety net only; nothing in the library or the harness sleeps or blocks).
const WALL_SAFETY_S: u64 = 3600;

struct Child {
    proc: std::process::Child,
    last: Instant,
    /// CPU seconds the worker had used when its last message arrived
    last_cpu: f64,
    cur_block: Option<u64>,
    done_blocks: u64,
    finished: bool,
    start_block: u64,
}

fn spawn_worker(exe: &str, def: &CheckDef, tier: Tier, seed: u64, total: u64, w: u64, id: u64, start: u64, out: &str, tx: &mpsc::Sender<Msg>) -> Child {
    let mut c = Command::new(exe)
        .args([
            "worker",
            def.id,
            if tier == Tier::Quick { "quick" } else { "thorough" },
            &seed.to_string(),
            &total.to_string(),
            &w.to_string(),
            &id.to_string(),
            &start.to_string(),
            out,
        ])
        .stdout(Stdio::piped())
        .stderr(Stdio::inherit())
        .spawn()
        .expect("spawn worker");
    let so = c.stdout.take().unwrap();
    let tx2 = tx.clone();
    std::thread::spawn(move || {
        let r = BufReader::new(so);
        for l in r.lines() {
            match l {
                Ok(l) => {
                    if tx2.send(Msg::Line(id, l)).is_err() {
                        return;
                    }
                }
                Err(_) => break,
            }
        }
        let _ = tx2.send(Msg::Eof(id));
    });
    Child { proc: c, last: Instant::now(), last_cpu: 0.0, cur_block: None, done_blocks: 0, finished: false, start_block: start }
}

/// Run block `b` one run at a time in a fresh process to find the run that crashes or hangs.
/// Returns Some((index, what)) or None if the block completes (not reproducible).
fn careful(exe: &str, def: &CheckDef, tier: Tier, seed: u64, total: u64, b: u64, out: &str) -> Option<(u64, String)> {
    let mut c = Command::new(exe)
        .args([
            "careful",
            def.id,
            if tier == Tier::Quick { "quick" } else { "thorough" },
            &seed.to_string(),
            &total.to_string(),
            &b.to_string(),
            out,
        ])
        .stdout(Stdio::piped())
        .stderr(Stdio::null())
        .spawn()
        .expect("spawn careful");
    let so = c.stdout.take().unwrap();
    let (tx, rx) = mpsc::channel::<Option<String>>();
    std::thread::spawn(move || {
        let r = BufReader::new(so);
        for l in r.lines().flatten() {
            if tx.send(Some(l)).is_err() {
                return;
            }
        }
        let _ = tx.send(None);
    });
    let mut cur: Option<u64> = None;
    // per-run limit in CPU seconds of the child (see cpu_seconds)
    let per_run: f64 = std::env::var("VERIF_RUN_CPU_S").ok().and_then(|s| s.parse().ok()).unwrap_or(60.0);
    let pid = c.id();
    let mut cpu_at_start = 0.0f64;
    let mut wall_at_start = Instant::now();
    loop {
        match rx.recv_timeout(Duration::from_secs(1)) {
            Ok(Some(l)) => {
                if let Some(r) = l.strip_prefix("S ") {
                    cur = r.trim().parse().ok();
                    cpu_at_start = cpu_seconds(pid).unwrap_or(cpu_at_start);
                    wall_at_start = Instant::now();
                } else if l.trim() == "F" {
                    let _ = c.wait();
                    return None;
                }
            }
            Ok(None) => {
                let st = c.wait().ok();
                let what = match st {
                    Some(s) => {
                        use std::os::unix::process::ExitStatusExt;
                        if let Some(sig) = s.signal() {
                            format!("process killed by signal {}", sig)
                        } else {
                            format!("process exited with status {:?}", s.code())
                        }
                    }
                    None => "process died".to_string(),
                };
                return cur.map(|i| (i, what));
            }
            Err(mpsc::RecvTimeoutError::Timeout) => {
                let used = cpu_seconds(pid).map(|c| c - cpu_at_start).unwrap_or(0.0);
                if used > per_run || wall_at_start.elapsed() > Duration::from_secs(WALL_SAFETY_S) {
                    let _ = c.kill();
                    let _ = c.wait();
                    return cur.map(|i| (i, format!("no return within {} s of CPU time (non-termination)", per_run as u64)));
                }
            }
            Err(mpsc::RecvTimeoutError::Disconnected) => {
                let _ = c.kill();
                let _ = c.wait();
                return None;
            }
        }
    }
}

pub struct BatchResult {
    pub evidence: J,
    pub violations: Vec<J>,
    pub known: Vec<J>,
    pub harness_error: Option<String>,
}

pub fn run_batch(def: &CheckDef, tier: Tier, seed: u64) -> BatchResult {
    let t0 = Instant::now();
    let exe = std::env::current_exe().unwrap().to_string_lossy().into_owned();
    let w: u64 = std::env::var("VERIF_WORKERS").ok().and_then(|s| s.parse().ok()).unwrap_or(16);
    let total = total_runs(def, tier);
    let nblocks = (total + def.block - 1) / def.block;
    let w = w.min(nblocks).max(1);
    let out = format!("{}/mzsim-{}-{}-{}", std::env::temp_dir().display(), def.id, std::process::id(), crate::BUILD);
    let _ = std::fs::remove_dir_all(&out);
    std::fs::create_dir_all(&out).expect("mk out dir");
    let (tx, rx) = mpsc::channel::<Msg>();
    let mut kids: BTreeMap<u64, Child> = BTreeMap::new();
    for id in 0..w {
        kids.insert(id, spawn_worker(&exe, def, tier, seed, total, w, id, 0, &out, &tx));
    }
    // a worker that has burnt this many CPU seconds since its last message is taken to hang
    let silent_limit: f64 = std::env::var("VERIF_WATCHDOG_S").ok().and_then(|s| s.parse().ok()).unwrap_or(120.0);
    let mut crash_viols: Vec<J> = Vec::new();
    let mut harness_error: Option<String> = None;
    let mut live = w;
    while live > 0 {
        match rx.recv_timeout(Duration::from_secs(1)) {
            Ok(Msg::Line(id, l)) => {
                let k = kids.get_mut(&id).unwrap();
                k.last = Instant::now();
                k.last_cpu = cpu_seconds(k.proc.id()).unwrap_or(k.last_cpu);
                if let Some(r) = l.strip_prefix("B ") {
                    k.cur_block = r.trim().parse().ok();
                } else if l.starts_with("E ") {
                    k.done_blocks += 1;
                    k.cur_block = None;
                } else if l.trim() == "F" {
                    k.finished = true;
                }
            }
            Ok(Msg::Eof(id)) => {
                let (finished, cur) = {
                    let k = kids.get_mut(&id).unwrap();
                    let _ = k.proc.wait();
                    (k.finished, k.cur_block)
                };
                if finished {
                    live -= 1;
                    continue;
                }
                // died without finishing: locate the run
                match cur {
                    Some(b) => {
                        match careful(&exe, def, tier, seed, total, b, &out) {
                            Some((i, what)) => {
                                let s = gen_script(def, seed, i, tier);
                                let mut s2 = s.clone();
                                s2.clause = format!("{}.process_outcome", def.id);
                                s2.detail = what.clone();
                                let path = format!("{}/{}-s{}-i{}{}.json", replay_dir(), def.id, seed, i, build_tag());
                                let _ = std::fs::create_dir_all(replay_dir());
                                let _ = std::fs::write(&path, s2.to_json().pretty());
                                let mut vj = J::obj();
                                vj.set("index", J::Int(i as i64));
                                vj.set("clause", J::s(&s2.clause));
                                vj.set("detail", J::s(&what));
                                vj.set("path", J::s(&path));
                                vj.set("config", J::Obj(s.cfg.iter().map(|(k, v)| (k.clone(), J::Int(*v))).collect()));
                                crash_viols.push(vj);
                            }
                            None => {
                                // the block completes run by run: did it contain an ordinary violation whose
                                // minimisation killed the worker?
                                let cres = std::fs::read_to_string(format!("{}/res-careful{}.json", out, b)).ok().and_then(|t| json::parse(&t).ok());
                                let cv: Vec<J> = cres.as_ref().and_then(|j| j.get("viols")).and_then(|x| x.as_arr()).map(|a| a.to_vec()).unwrap_or_default();
                                if cv.is_empty() {
                                    harness_error = Some(format!("worker {} died in block {} but the block completes in a fresh process", id, b));
                                } else {
                                    crash_viols.extend(cv);
                                }
                            }
                        }
                        if crash_viols.len() >= 2 {
                            // enough process-level findings (each costs minutes of watchdog time): stop the batch;
                            // workers that are still running keep what they wrote so far
                            for (kid, k) in kids.iter_mut() {
                                if *kid != id && !k.finished {
                                    let _ = k.proc.kill();
                                    let _ = k.proc.wait();
                                    k.finished = true;
                                }
                            }
                            break;
                        } else if harness_error.is_some() {
                            live -= 1;
                        } else {
                            // continue with the blocks after the crashed one
                            let nk = spawn_worker(&exe, def, tier, seed, total, w, id, b + 1, &out, &tx);
                            kids.insert(id, nk);
                        }
                    }
                    None => {
                        // died between blocks (or before the first): could be a harness error exit
                        live -= 1;
                    }
                }
            }
            Err(mpsc::RecvTimeoutError::Timeout) => {
                for (_, k) in kids.iter_mut() {
                    if k.finished {
                        continue;
                    }
                    let used = cpu_seconds(k.proc.id()).map(|c| c - k.last_cpu).unwrap_or(0.0);
                    if used > silent_limit || k.last.elapsed() > Duration::from_secs(WALL_SAFETY_S) {
                        // hang: kill; the Eof handler will locate the run in careful mode
                        let _ = k.proc.kill();
                        k.last = Instant::now();
                    }
                }
            }
            Err(mpsc::RecvTimeoutError::Disconnected) => break,
        }
    }
    // merge results
    let mut stats = Stats::default();
    let mut fps: HashSet<u64> = HashSet::new();
    let mut blocks: Vec<(u64, String)> = Vec::new();
    let mut viols: Vec<J> = Vec::new();
    let mut known_all: BTreeMap<String, (u64, String, String)> = BTreeMap::new();
    let mut samples: Vec<J> = Vec::new();
    let mut nruns = 0u64;
    let mut nontrivial = 0u64;
    let mut slowest: (u64, u64) = (0, 0);
    if let Ok(rd) = std::fs::read_dir(&out) {
        let mut names: Vec<String> = rd.flatten().map(|e| e.file_name().to_string_lossy().into_owned()).collect();
        names.sort();
        for n in names {
            let p = format!("{}/{}", out, n);
            if n.starts_with("res-careful") || n.starts_with("fp-careful") {
                continue;
            }
            if n.starts_with("res-") {
                let txt = std::fs::read_to_string(&p).unwrap_or_default();
                match json::parse(&txt) {
                    Ok(j) => {
                        nruns += j.get("nruns").and_then(|x| x.as_i64()).unwrap_or(0) as u64;
                        let sm = j.get("slowest_ms").and_then(|x| x.as_i64()).unwrap_or(0) as u64;
                        if sm > slowest.0 {
                            slowest = (sm, j.get("slowest_index").and_then(|x| x.as_i64()).unwrap_or(0) as u64);
                        }
                        nontrivial += j.get("nontrivial").and_then(|x| x.as_i64()).unwrap_or(0) as u64;
                        if let Some(J::Obj(o)) = j.get("stats") {
                            let mut s2 = Stats::default();
                            for (k, v) in o {
                                s2.m.insert(k.clone(), v.as_i64().unwrap_or(0) as u64);
                            }
                            stats.merge(&s2);
                        }
                        if let Some(J::Arr(a)) = j.get("blocks") {
                            for b in a {
                                if let Some(r) = b.as_arr() {
                                    blocks.push((r[0].as_i64().unwrap_or(0) as u64, r[1].as_str().unwrap_or("").to_string()));
                                }
                            }
                        }
                        if let Some(J::Arr(a)) = j.get("viols") {
                            viols.extend(a.iter().cloned());
                        }
                        if let Some(J::Arr(a)) = j.get("known") {
                            for kx in a {
                                let id = kx.get("id").and_then(|x| x.as_str()).unwrap_or("?").to_string();
                                let e = known_all.entry(id).or_insert((0, String::new(), String::new()));
                                e.0 += kx.get("count").and_then(|x| x.as_i64()).unwrap_or(0) as u64;
                                if e.1.is_empty() {
                                    e.1 = kx.get("path").and_then(|x| x.as_str()).unwrap_or("").to_string();
                                    e.2 = kx.get("clause").and_then(|x| x.as_str()).unwrap_or("").to_string();
                                }
                            }
                        }
                        if let Some(J::Arr(a)) = j.get("samples") {
                            for s in a {
                                if samples.len() < 3 {
                                    samples.push(s.clone());
                                }
                            }
                        }
                        if let Some(e) = j.get("harness_error").and_then(|x| x.as_str()) {
                            harness_error = Some(e.to_string());
                        }
                    }
                    Err(e) => harness_error = Some(format!("bad worker result {}: {}", p, e)),
                }
            } else if n.starts_with("fp-") {
                if let Ok(b) = std::fs::read(&p) {
                    for c in b.chunks_exact(8) {
                        fps.insert(u64::from_le_bytes(c.try_into().unwrap()));
                    }
                }
            }
        }
    }
    let _ = std::fs::remove_dir_all(&out);
    viols.extend(crash_viols);
    viols.sort_by_key(|v| v.get("index").and_then(|x| x.as_i64()).unwrap_or(0));
    blocks.sort();
    let mut dh = Hasher::new();
    for (j, h) in &blocks {
        dh.u(*j);
        dh.bytes(h.as_bytes());
    }
    let complete = blocks.len() as u64 == nblocks;
    if viols.is_empty() && harness_error.is_none() && !complete {
        harness_error = Some(format!("only {} of {} blocks completed", blocks.len(), nblocks));
    }
    let wall = t0.elapsed().as_secs_f64();
    // evidence (one build flavour; the check script merges flavours)
    let mut cov = J::obj();
    cov.set("evaluations", J::Int(nruns as i64));
    cov.set("distinct_nontrivial", J::Int(fps.len() as i64));
    cov.set("nontrivial_runs", J::Int(nontrivial as i64));
    cov.set("rule", J::s(def.rule));
    cov.set("samples", J::Arr(samples));
    cov.set("exhaustive", J::Bool(false));
    cov.set("batch_digest", J::Str(format!("{:016x}", dh.0)));
    cov.set("sim_steps", J::Int(stats.get("steps") as i64));
    cov.set("calls_into_real_code", J::Int(stats.get("calls") as i64));
    cov.set("runs_per_hour", J::Int(if wall > 0.0 { (nruns as f64 / wall * 3600.0) as i64 } else { 0 }));
    cov.set("workers", J::Int(w as i64));
    cov.set("slowest_run_ms", J::Int(slowest.0 as i64));
    cov.set("slowest_run_index", J::Int(slowest.1 as i64));
    let mut faults = BTreeMap::new();
    let mut probes = BTreeMap::new();
    let mut other = BTreeMap::new();
    for (k, v) in &stats.m {
        if let Some(r) = k.strip_prefix("fault.") {
            faults.insert(r.to_string(), *v);
        } else if let Some(r) = k.strip_prefix("probe.") {
            probes.insert(r.to_string(), *v);
        } else if k != "steps" && k != "calls" {
            other.insert(k.clone(), *v);
        }
    }
    cov.set("faults_fired", J::from_map(&faults));
    cov.set("probes", J::from_map(&probes));
    cov.set("counters", J::from_map(&other));
    let zero: Vec<J> = probes.iter().filter(|(_, v)| **v == 0).map(|(k, _)| J::s(k)).collect();
    cov.set("probes_at_zero", J::Arr(zero));
    let mut ev = J::obj();
    ev.set("property_id", J::s(def.id));
    ev.set("tier", J::s(if tier == Tier::Quick { "quick" } else { "thorough" }));
    ev.set("seed", J::Int(seed as i64));
    ev.set("level", J::s(def.level));
    ev.set("build", J::s(crate::BUILD));
    ev.set("coverage", cov);
    ev.set("assumptions", J::Arr(def.assumptions.iter().map(|a| J::s(a)).collect()));
    ev.set("wall_s", J::Num((wall * 1000.0).round() / 1000.0));
    ev.set("violations", J::Int(viols.len() as i64));
    let known_v: Vec<J> = known_all
        .iter()
        .map(|(id, (n, path, clause))| {
            let mut o = J::obj();
            o.set("id", J::s(id));
            o.set("count", J::Int(*n as i64));
            o.set("path", J::s(path));
            o.set("clause", J::s(clause));
            o
        })
        .collect();
    BatchResult { evidence: ev, violations: viols, known: known_v, harness_error }
}
