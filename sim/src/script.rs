//! Script: the explicit, self-contained description of one simulated run (DESIGN 2.2).
//! Generators draw from the PRNG and produce a Script; executors are pure functions of a Script.
//! A replay file is a serialised Script.

use crate::json::{hex, unhex, J};
use std::collections::BTreeMap;

#[derive(Clone, Debug, Default)]
pub struct Script {
    pub prop: String,
    pub scen: String,
    pub build: String,
    pub seed: u64,
    pub index: u64,
    /// named integer configuration (format, level, mode, sizes, flags ...)
    pub cfg: Vec<(String, i64)>,
    /// named byte strings (plaintext, stream, ring fill ...)
    pub blobs: Vec<(String, Vec<u8>)>,
    /// channel / sink / node faults: [kind, a, b, c]
    pub faults: Vec<Vec<i64>>,
    /// the schedule, step by step; meaning of the integers is per scenario
    pub ops: Vec<Vec<i64>>,
    /// filled in when a violation is reported
    pub clause: String,
    pub detail: String,
    pub minimised: bool,
    pub shrink_steps: u64,
}

impl Script {
    pub fn new(prop: &str, scen: &str) -> Script {
        Script { prop: prop.into(), scen: scen.into(), build: crate::BUILD.into(), ..Default::default() }
    }
    pub fn c(&self, k: &str) -> i64 {
        self.cfg.iter().find(|(kk, _)| kk == k).map(|(_, v)| *v).unwrap_or(0)
    }
    pub fn c_or(&self, k: &str, d: i64) -> i64 {
        self.cfg.iter().find(|(kk, _)| kk == k).map(|(_, v)| *v).unwrap_or(d)
    }
    pub fn set(&mut self, k: &str, v: i64) {
        if let Some(e) = self.cfg.iter_mut().find(|(kk, _)| kk == k) {
            e.1 = v;
        } else {
            self.cfg.push((k.into(), v));
        }
    }
    pub fn blob(&self, k: &str) -> &[u8] {
        self.blobs.iter().find(|(kk, _)| kk == k).map(|(_, v)| &v[..]).unwrap_or(&[])
    }
    pub fn has_blob(&self, k: &str) -> bool {
        self.blobs.iter().any(|(kk, _)| kk == k)
    }
    pub fn set_blob(&mut self, k: &str, v: Vec<u8>) {
        if let Some(e) = self.blobs.iter_mut().find(|(kk, _)| kk == k) {
            e.1 = v;
        } else {
            self.blobs.push((k.into(), v));
        }
    }
    pub fn to_json(&self) -> J {
        let mut o = J::obj();
        o.set("version", J::Int(1));
        o.set("property", J::s(&self.prop));
        o.set("scenario", J::s(&self.scen));
        o.set("build", J::s(&self.build));
        o.set("verif_seed", J::Int(self.seed as i64));
        o.set("run_index", J::Int(self.index as i64));
        o.set("clause", J::s(&self.clause));
        o.set("detail", J::s(&self.detail));
        o.set("minimised", J::Bool(self.minimised));
        o.set("shrink_steps", J::Int(self.shrink_steps as i64));
        o.set("config", J::Obj(self.cfg.iter().map(|(k, v)| (k.clone(), J::Int(*v))).collect()));
        o.set("blobs", J::Obj(self.blobs.iter().map(|(k, v)| (k.clone(), J::Str(hex(v)))).collect()));
        o.set("faults", J::Arr(self.faults.iter().map(|f| J::Arr(f.iter().map(|x| J::Int(*x)).collect())).collect()));
        o.set("ops", J::Arr(self.ops.iter().map(|f| J::Arr(f.iter().map(|x| J::Int(*x)).collect())).collect()));
        o
    }
    /// Short rendering for evidence samples (blobs abbreviated).
    pub fn sample_json(&self) -> J {
        let mut o = J::obj();
        o.set("scenario", J::s(&self.scen));
        o.set("run_index", J::Int(self.index as i64));
        o.set("config", J::Obj(self.cfg.iter().map(|(k, v)| (k.clone(), J::Int(*v))).collect()));
        o.set(
            "blobs",
            J::Obj(
                self.blobs
                    .iter()
                    .map(|(k, v)| {
                        let h = if v.len() <= 24 { hex(v) } else { format!("{}..({} bytes)", hex(&v[..24]), v.len()) };
                        (k.clone(), J::Str(h))
                    })
                    .collect(),
            ),
        );
        o.set("faults", J::Arr(self.faults.iter().map(|f| J::Arr(f.iter().map(|x| J::Int(*x)).collect())).collect()));
        let n = self.ops.len().min(12);
        o.set("ops_total", J::Int(self.ops.len() as i64));
        o.set("ops_head", J::Arr(self.ops[..n].iter().map(|f| J::Arr(f.iter().map(|x| J::Int(*x)).collect())).collect()));
        o
    }
    pub fn from_json(j: &J) -> Result<Script, String> {
        let gs = |k: &str| j.get(k).and_then(|x| x.as_str()).unwrap_or("").to_string();
        let gi = |k: &str| j.get(k).and_then(|x| x.as_i64()).unwrap_or(0);
        let mut s = Script {
            prop: gs("property"),
            scen: gs("scenario"),
            build: gs("build"),
            seed: gi("verif_seed") as u64,
            index: gi("run_index") as u64,
            clause: gs("clause"),
            detail: gs("detail"),
            minimised: matches!(j.get("minimised"), Some(J::Bool(true))),
            shrink_steps: gi("shrink_steps") as u64,
            ..Default::default()
        };
        if let Some(J::Obj(o)) = j.get("config") {
            for (k, v) in o {
                s.cfg.push((k.clone(), v.as_i64().ok_or("cfg int")?));
            }
        }
        if let Some(J::Obj(o)) = j.get("blobs") {
            for (k, v) in o {
                s.blobs.push((k.clone(), unhex(v.as_str().ok_or("blob str")?)?));
            }
        }
        let rows = |k: &str| -> Result<Vec<Vec<i64>>, String> {
            let mut r = Vec::new();
            if let Some(J::Arr(a)) = j.get(k) {
                for x in a {
                    let row = x.as_arr().ok_or("row")?;
                    r.push(row.iter().map(|y| y.as_i64().unwrap_or(0)).collect());
                }
            }
            Ok(r)
        };
        s.faults = rows("faults")?;
        s.ops = rows("ops")?;
        Ok(s)
    }
}

#[derive(Clone, Debug)]
pub struct Violation {
    pub clause: String,
    pub detail: String,
}

pub fn viol<T>(clause: &str, detail: String) -> Result<T, Violation> {
    Err(Violation { clause: clause.to_string(), detail })
}

/// Per-worker accumulator of reach probes, fault counts etc. BTreeMap => deterministic order.
#[derive(Default, Clone)]
pub struct Stats {
    pub m: BTreeMap<String, u64>,
}

impl Stats {
    #[inline]
    pub fn inc(&mut self, k: &str) {
        self.add(k, 1);
    }
    pub fn add(&mut self, k: &str, n: u64) {
        if let Some(v) = self.m.get_mut(k) {
            *v += n;
        } else {
            self.m.insert(k.to_string(), n);
        }
    }
    pub fn max(&mut self, k: &str, n: u64) {
        let e = self.m.entry(k.to_string()).or_insert(0);
        if n > *e {
            *e = n;
        }
    }
    pub fn merge(&mut self, o: &Stats) {
        for (k, v) in &o.m {
            if k.starts_with("max.") {
                self.max(k, *v);
            } else {
                self.add(k, *v);
            }
        }
    }
    pub fn get(&self, k: &str) -> u64 {
        self.m.get(k).copied().unwrap_or(0)
    }
}
