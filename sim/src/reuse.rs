//! `reuse` scenario (C18): an object lives through a random prior history, is reset, and then runs a
//! different script in lock step with a freshly constructed object of the same settings.

use crate::dec::{apply_faults, mz_code, ring_pattern};
use crate::gen;
use crate::pipe::{make_compressor, mz_flush_of, tdefl_flush_of};
use crate::props_dec::{random_fault, valid_stream};
use crate::props_pipe::{base_cfg, comp_ops};
use crate::rng::{Hasher, Rng};
use crate::runner::{CheckDef, RunInfo, Tier};
use crate::script::{viol, Script, Stats, Violation};
use miniz_oxide::deflate::core::{compress, compress_to_output, CompressorOxide};
use miniz_oxide::deflate::stream::deflate;
use miniz_oxide::inflate::core::inflate_flags::*;
use miniz_oxide::inflate::core::{decompress_with_limit, DecompressorOxide};
use miniz_oxide::inflate::stream::{inflate, FullReset, InflateState, MinReset, ZeroReset};
use miniz_oxide::DataFormat;

fn ops_of(s: &Script, which: i64) -> Vec<Vec<i64>> {
    // ops rows are tagged in column 0: 0 = prior history, 1 = after reset
    s.ops.iter().filter(|o| o[0] == which).map(|o| o[1..].to_vec()).collect()
}

/// One compressor call; returns (status code, consumed, bytes written) and appends to sink.
fn comp_step(d: &mut CompressorOxide, driver: i64, inb: &[u8], out_len: usize, fl: i64, sink: &mut Vec<u8>, fail_cb: bool) -> (i32, usize, usize) {
    match driver {
        1 => {
            let before = sink.len();
            let (s, c) = compress_to_output(d, inb, tdefl_flush_of(fl), |b: &[u8]| {
                if fail_cb {
                    return false;
                }
                sink.extend_from_slice(b);
                true
            });
            (s as i32, c, sink.len() - before)
        }
        2 => {
            let mut o = vec![0u8; out_len];
            let r = deflate(d, inb, &mut o, mz_flush_of(fl.min(5)));
            sink.extend_from_slice(&o[..r.bytes_written.min(out_len)]);
            (mz_code(&r.status), r.bytes_consumed, r.bytes_written)
        }
        _ => {
            let mut o = vec![0u8; out_len];
            let (s, c, w) = compress(d, inb, &mut o, tdefl_flush_of(fl));
            sink.extend_from_slice(&o[..w.min(out_len)]);
            (s as i32, c, w)
        }
    }
}

fn exec_compressor(s: &Script, st: &mut Stats) -> Result<RunInfo, Violation> {
    let driver = s.c("driver");
    let prior = s.blob("prior");
    let next = s.blob("next");
    let mut d = make_compressor(s);
    // ---- prior history: arbitrary calls, abandoned wherever the ops end ----
    let mut pos = 0usize;
    let mut delivered = 0usize;
    let mut sink0 = Vec::new();
    let pops = ops_of(s, 0);
    for (i, o) in pops.iter().enumerate() {
        delivered = (delivered + o[0].max(0) as usize).min(prior.len());
        let fail = s.c("prior_putfail") != 0 && i + 1 == pops.len();
        let (code, c, _w) = comp_step(&mut d, driver, &prior[pos..delivered], o[1].max(0) as usize, o[2], &mut sink0, fail);
        st.inc("calls");
        st.inc("steps");
        pos += c.min(delivered - pos);
        if code < 0 {
            st.inc("probe.prior_ended_in_error_state");
        }
        if code == 1 {
            st.inc("probe.prior_completed_stream");
        }
    }
    if !pops.is_empty() && pos < prior.len() {
        st.inc("probe.prior_abandoned_midstream");
    }
    d.reset();
    // junk allocations between the two fresh objects: results must not depend on addresses / heap contents
    let junk: Vec<Vec<u8>> = (0..(s.c("junk") as usize % 7)).map(|i| vec![0xABu8; 1000 * (i + 1)]).collect();
    let mut fresh = make_compressor(s);
    drop(junk);
    let mut fresh2 = make_compressor(s);
    let mut h = Hasher::new();
    let (mut p1, mut p2, mut p3) = (0usize, 0usize, 0usize);
    let mut dl = 0usize;
    let (mut s1, mut s2, mut s3) = (Vec::new(), Vec::new(), Vec::new());
    let nops = ops_of(s, 1);
    let mut finishing = false;
    let mut k = 0usize;
    let mut tail = 0usize;
    loop {
        let (chunk, ol, mut fl) = if k < nops.len() {
            (nops[k][0].max(0) as usize, nops[k][1].max(0) as usize, nops[k][2])
        } else {
            tail += 1;
            if tail > next.len() + 64 {
                break;
            }
            (next.len(), 4096, 4)
        };
        k += 1;
        dl = (dl + chunk).min(next.len());
        if finishing {
            fl = 4;
        }
        if fl == 4 {
            finishing = true;
        }
        let r1 = comp_step(&mut d, driver, &next[p1..dl], ol, fl, &mut s1, false);
        let r2 = comp_step(&mut fresh, driver, &next[p2..dl], ol, fl, &mut s2, false);
        let r3 = comp_step(&mut fresh2, driver, &next[p3..dl], ol, fl, &mut s3, false);
        st.add("calls", 3);
        st.inc("steps");
        h.u(r2.0 as u64);
        h.u(r2.1 as u64);
        h.u(r2.2 as u64);
        if r2 != r3 || s2 != s3 {
            return viol("C18.deterministic", format!("call {}: two fresh compressors disagree: {:?} vs {:?}", k, r2, r3));
        }
        if r1 != r2 {
            return viol("C18.compressor_reset_results", format!("call {} after reset(): (status, consumed, written) = {:?}, a fresh compressor gives {:?}", k, r1, r2));
        }
        if s1 != s2 {
            let nn = s1.len().min(s2.len());
            let idx = (0..nn).find(|&i| s1[i] != s2[i]).unwrap_or(nn);
            return viol("C18.compressor_reset_bytes", format!("call {} after reset(): emitted bytes differ from a fresh compressor at offset {}", k, idx));
        }
        if d.adler32() != fresh.adler32() {
            return viol("C18.compressor_reset_adler", format!("call {} after reset(): adler32() {:#x} vs {:#x}", k, d.adler32(), fresh.adler32()));
        }
        p1 += r1.1.min(dl - p1);
        p2 += r2.1.min(dl - p2);
        p3 += r3.1.min(dl - p3);
        if r2.0 == 1 && finishing {
            break;
        }
        if r2.0 < 0 && r2.0 != -5 {
            break;
        }
    }
    h.bytes(&s2);
    Ok(RunInfo { hash: h.0, nontrivial: !pops.is_empty() })
}

fn fmt_of(v: i64) -> DataFormat {
    match v {
        1 => DataFormat::Zlib,
        2 => DataFormat::ZLibIgnoreChecksum,
        _ => DataFormat::Raw,
    }
}

fn exec_inflate_state(s: &Script, st: &mut Stats) -> Result<RunInfo, Violation> {
    let fmt1 = fmt_of(s.c("fmt"));
    let policy = s.c("policy"); // 0 reset(fmt2) 1 MinReset 2 ZeroReset 3 FullReset(fmt2)
    let fmt2 = if policy == 1 || policy == 2 { fmt1 } else { fmt_of(s.c("fmt2")) };
    let prior = apply_faults(s.blob("prior"), &s.faults, st);
    let next = s.blob("next");
    let mut a = InflateState::new_boxed(fmt1);
    let mut pos = 0usize;
    let mut delivered = 0usize;
    let mut o = Vec::new();
    for op in ops_of(s, 0) {
        delivered = (delivered + op[0].max(0) as usize).min(prior.len());
        let ol = op[1].max(0) as usize;
        if o.len() < ol {
            o.resize(ol, 0);
        }
        let r = inflate(&mut a, &prior[pos..delivered], &mut o[..ol], mz_flush_of(op[2]));
        st.inc("calls");
        st.inc("steps");
        pos += r.bytes_consumed.min(delivered - pos);
        if r.status.is_err() {
            st.inc("probe.prior_error_return");
        }
    }
    // optionally a chain of two resets with nothing in between: the last one decides what is promised
    match s.c("pre_policy") {
        1 => a.reset_as(MinReset),
        2 => a.reset_as(ZeroReset),
        3 => a.reset_as(FullReset(fmt1)),
        4 => a.reset(fmt1),
        _ => {}
    }
    if s.c("pre_policy") != 0 {
        st.inc("probe.reset.chain_of_two");
    }
    match policy {
        1 => a.reset_as(MinReset),
        2 => a.reset_as(ZeroReset),
        3 => a.reset_as(FullReset(fmt2)),
        _ => a.reset(fmt2),
    }
    st.inc(match policy {
        1 => "probe.reset.min",
        2 => "probe.reset.zero",
        3 => "probe.reset.full",
        _ => "probe.reset.reset_fn",
    });
    let mut b = InflateState::new_boxed(fmt2);
    let mut c = InflateState::new_boxed(fmt2);
    let mut h = Hasher::new();
    let (mut pa, mut pb, mut pc) = (0usize, 0usize, 0usize);
    let mut dl = 0usize;
    let (mut oa, mut ob, mut oc) = (Vec::new(), Vec::new(), Vec::new());
    let nops = ops_of(s, 1);
    let mut k = 0usize;
    let mut tail = 0usize;
    loop {
        let (chunk, ol, fl) = if k < nops.len() {
            (nops[k][0].max(0) as usize, nops[k][1].max(0) as usize, nops[k][2])
        } else {
            tail += 1;
            if tail > next.len() + 600 {
                break;
            }
            (next.len(), 4096, 0)
        };
        k += 1;
        dl = (dl + chunk).min(next.len());
        oa.resize(ol, 0);
        ob.resize(ol, 0);
        oc.resize(ol, 0);
        oa.fill(0x11);
        ob.fill(0x11);
        oc.fill(0x11);
        let ra = inflate(&mut a, &next[pa..dl], &mut oa, mz_flush_of(fl));
        let rb = inflate(&mut b, &next[pb..dl], &mut ob, mz_flush_of(fl));
        let rc = inflate(&mut c, &next[pc..dl], &mut oc, mz_flush_of(fl));
        st.add("calls", 3);
        st.inc("steps");
        h.u(mz_code(&rb.status) as u64);
        h.u(rb.bytes_consumed as u64);
        h.u(rb.bytes_written as u64);
        if rb != rc || ob != oc {
            return viol("C18.deterministic", format!("call {}: two fresh InflateStates disagree: {:?} vs {:?}", k, rb, rc));
        }
        if ra != rb {
            return viol("C18.inflate_state_reset_results", format!("call {} after reset (policy {}): {:?}, a fresh state gives {:?}", k, policy, ra, rb));
        }
        if oa != ob {
            let idx = (0..ol).find(|&i| oa[i] != ob[i]).unwrap_or(0);
            // does the subsequent stream copy from before its own start? (then a non-zeroed window shows)
            let zero = vec![0u8; 32768];
            let o = crate::refinf::Opts { zlib: fmt2 != DataFormat::Raw, ring: Some((32768, &zero[..])), tokens: false, max_out: 8 << 20, ignore_adler: true };
            let v = crate::refinf::inflate(next, &o);
            let clause = if v.prehistory_reads > 0 { "C18.inflate_state_reset_bytes.stream_reads_before_its_start" } else { "C18.inflate_state_reset_bytes" };
            return viol(clause, format!("call {} after reset (policy {}): output byte {} is {:#04x}, a fresh state gives {:#04x}", k, policy, idx, oa[idx], ob[idx]));
        }
        pa += ra.bytes_consumed.min(dl - pa);
        pb += rb.bytes_consumed.min(dl - pb);
        pc += rc.bytes_consumed.min(dl - pc);
        let progressed = rb.bytes_consumed > 0 || rb.bytes_written > 0;
        if k > nops.len() && (rb.status == Ok(miniz_oxide::MZStatus::StreamEnd) || (rb.status.is_err() && !progressed)) {
            break;
        }
    }
    Ok(RunInfo { hash: h.0, nontrivial: true })
}

fn exec_decompressor(s: &Script, st: &mut Stats) -> Result<RunInfo, Violation> {
    let zlib1 = s.c("fmt") != 0;
    let zlib2 = s.c("fmt2") != 0;
    let prior = apply_faults(s.blob("prior"), &s.faults, st);
    let next = s.blob("next");
    let ring = s.c("mode") == 1;
    let sz = if ring { 1usize << s.c_or("ring_bits", 15) } else { s.c_or("flat_cap", 70000) as usize };
    let base = |z: bool| (if z { TINFL_FLAG_PARSE_ZLIB_HEADER } else { 0 }) | (if ring { 0 } else { TINFL_FLAG_USING_NON_WRAPPING_OUTPUT_BUF });
    let mut a = DecompressorOxide::new();
    let mut buf = ring_pattern(7, sz);
    let mut pos = 0usize;
    let mut delivered = 0usize;
    let mut op_ = 0usize;
    for op in ops_of(s, 0) {
        delivered = (delivered + op[0].max(0) as usize).min(prior.len());
        let budget = if op[1] < 0 { usize::MAX } else { op[1] as usize };
        let fl = base(zlib1) | if delivered < prior.len() { TINFL_FLAG_HAS_MORE_INPUT } else { 0 };
        let (stt, c, w) = decompress_with_limit(&mut a, &prior[pos..delivered], &mut buf, op_, budget, fl);
        st.inc("calls");
        st.inc("steps");
        pos += c;
        op_ = if ring { (op_ + w) & (sz - 1) } else { (op_ + w).min(sz) };
        if (stt as i32) < 0 {
            st.inc("probe.prior_failed");
        }
    }
    a.init();
    let mut b = DecompressorOxide::new();
    // the caller hands the same (fresh) buffer contents to both
    let mut ba = ring_pattern(s.c("ringfill") as u64, sz);
    let mut bb = ba.clone();
    let mut h = Hasher::new();
    let (mut pa, mut pb) = (0usize, 0usize);
    let mut dl = 0usize;
    let (mut xa, mut xb) = (0usize, 0usize);
    let nops = ops_of(s, 1);
    let mut k = 0usize;
    let mut tail = 0usize;
    loop {
        let (chunk, budget) = if k < nops.len() {
            (nops[k][0].max(0) as usize, if nops[k][1] < 0 { usize::MAX } else { nops[k][1] as usize })
        } else {
            tail += 1;
            if tail > next.len() / 16 + 64 {
                break;
            }
            (next.len(), usize::MAX)
        };
        k += 1;
        dl = (dl + chunk).min(next.len());
        let fl = base(zlib2) | if dl < next.len() { TINFL_FLAG_HAS_MORE_INPUT } else { 0 };
        let ra = decompress_with_limit(&mut a, &next[pa..dl], &mut ba, xa, budget, fl);
        let rb = decompress_with_limit(&mut b, &next[pb..dl], &mut bb, xb, budget, fl);
        st.add("calls", 2);
        st.inc("steps");
        h.u(rb.0 as i32 as u64);
        h.u(rb.1 as u64);
        h.u(rb.2 as u64);
        if ra != rb {
            return viol("C18.decompressor_init_results", format!("call {} after init(): {:?}, a new decompressor gives {:?}", k, ra, rb));
        }
        if ba != bb {
            let idx = (0..sz).find(|&i| ba[i] != bb[i]).unwrap_or(0);
            return viol("C18.decompressor_init_bytes", format!("call {} after init(): buffer byte {} differs ({:#04x} vs {:#04x})", k, idx, ba[idx], bb[idx]));
        }
        if a.adler32() != b.adler32() {
            return viol("C18.decompressor_init_adler", format!("call {} after init(): adler32() {:?} vs {:?}", k, a.adler32(), b.adler32()));
        }
        pa += ra.1;
        pb += rb.1;
        xa = if ring { (xa + ra.2) & (sz - 1) } else { xa + ra.2 };
        xb = if ring { (xb + rb.2) & (sz - 1) } else { xb + rb.2 };
        use miniz_oxide::inflate::TINFLStatus as T;
        match rb.0 {
            T::NeedsMoreInput if dl < next.len() || k <= nops.len() => {}
            T::HasMoreOutput if ring || xb < sz => {}
            T::BlockBoundary => {}
            _ => break,
        }
    }
    Ok(RunInfo { hash: h.0, nontrivial: true })
}

/// Two equal call sequences on two fresh objects give equal bytes: any script of the other scenarios
/// is executed twice in the same process with different heap contents in between.
fn exec_determinism(s: &Script, st: &mut Stats) -> Result<RunInfo, Violation> {
    let run = |st: &mut Stats| -> Result<RunInfo, Violation> {
        match s.scen.as_str() {
            "pipe" => crate::pipe::exec(s, st),
            "dec" => crate::dec::exec(s, st),
            "inflate-proto" => crate::proto::exec_inflate_proto(s, st),
            _ => crate::proto::exec_deflate_proto(s, st),
        }
    };
    let a = run(st)?;
    // perturb the heap: different addresses and stale contents for the second execution
    let junk: Vec<Vec<u8>> = (0..(1 + s.c("junk") as usize % 9)).map(|i| vec![(0x30 + i) as u8; 777 * (i + 1) + 4096 * (s.c("junk") as usize % 5)]).collect();
    let keep = junk.len();
    let b = run(st)?;
    drop(junk);
    if a.hash != b.hash {
        return viol("C18.deterministic", format!("the same script executed twice on fresh objects gave event-log hashes {:016x} and {:016x} ({} junk allocations in between)", a.hash, b.hash, keep));
    }
    st.inc("probe.determinism_pairs");
    Ok(RunInfo { hash: a.hash, nontrivial: a.nontrivial })
}

pub fn exec(s: &Script, st: &mut Stats) -> Result<RunInfo, Violation> {
    match s.c("object") {
        0 => exec_compressor(s, st),
        1 => exec_inflate_state(s, st),
        2 => exec_decompressor(s, st),
        3 => crate::cabi::exec(s, st),
        _ => exec_determinism(s, st),
    }
}

fn tag(ops: Vec<Vec<i64>>, t: i64) -> Vec<Vec<i64>> {
    ops.into_iter()
        .map(|o| {
            let mut v = vec![t];
            v.extend(o);
            v
        })
        .collect()
}

pub fn gen_c18(rng: &mut Rng, i: u64, tier: Tier) -> Script {
    match rng.below(12) {
        0 => {
            // C deflate stream: mz_deflateReset in the middle of a stream, lock step with a FRESH compressor
            let mut r2 = rng.fork();
            let mut s = crate::cabi::gen_c17(&mut r2, i, tier);
            for _ in 0..60 {
                if s.c("family") == 0 {
                    break;
                }
                s = crate::cabi::gen_c17(&mut r2, i, tier);
            }
            let nops = s.ops.len();
            if nops > 0 {
                for _ in 0..r2.range(1, 3) {
                    let k = r2.usize_below(nops);
                    if s.ops[k].len() > 3 {
                        s.ops[k][3] = 1;
                    }
                }
            }
            s.prop = "C18".into();
            s.set("object", 3);
            return s;
        }
        1 => {
            let mut r2 = rng.fork();
            let mut s = match r2.below(4) {
                0 => crate::props_pipe::gen_c02(&mut r2, u64::MAX, tier),
                1 => crate::props_dec::gen_c04(&mut r2, i, tier),
                2 => crate::props_proto::gen_c13(&mut r2, u64::MAX / 2, tier),
                _ => crate::props_proto::gen_c14(&mut r2, u64::MAX / 2, tier),
            };
            s.prop = "C18".into();
            s.set("object", 4);
            s.set("junk", r2.below(40) as i64);
            return s;
        }
        _ => {}
    }
    let mut s = Script::new("C18", "reuse");
    let object = rng.pick(&[0i64, 0, 1, 1, 2]);
    s.set("object", object);
    s.set("junk", rng.below(7) as i64);
    match object {
        0 => {
            base_cfg(rng, &mut s, true);
            if s.c("setter") != 0 && s.c("pre_reset") != 0 {
                s.set("pre_reset", 0);
            }
            let np = match rng.below(10) {
                0 => rng.range(33_000, 120_000),
                1 | 2 => rng.range(600, 6000),
                _ => rng.range(0, 600),
            };
            let prior = gen::plaintext(rng, np);
            let style = rng.next_u64();
            let mut pops = comp_ops(rng, np, style, &[1, 2, 3, 4, 5, 6, 7], 30, false);
            // cut the history anywhere; sometimes leave it in an error state
            let cut = rng.range(0, pops.len());
            pops.truncate(cut);
            match rng.below(8) {
                0 => {
                    // Finish then a non-Finish call: BadParam state
                    pops.push(vec![0, 50, 4]);
                    pops.push(vec![0, 50, 0]);
                }
                1 if s.c("driver") == 1 => {
                    s.set("prior_putfail", 1);
                    pops.push(vec![np as i64, 0, 2]);
                }
                2 => {
                    // completed stream
                    pops.push(vec![np as i64, (np + np / 8 + 400) as i64, 4]);
                }
                _ => {}
            }
            let nn = match rng.below(10) {
                0 => rng.range(33_000, 100_000),
                1 | 2 => rng.range(600, 6000),
                _ => rng.range(0, 600),
            };
            let next = gen::plaintext(rng, nn);
            let style2 = rng.next_u64();
            let fp = rng.pick(&[0u64, 10, 40]);
            let nops = comp_ops(rng, nn, style2, &[1, 2, 3, 5, 6, 7], fp, false);
            s.ops = tag(pops, 0);
            s.ops.extend(tag(nops, 1));
            s.set_blob("prior", prior);
            s.set_blob("next", next);
        }
        1 => {
            let f1 = rng.pick(&[0i64, 1, 1, 2]);
            let f2 = rng.pick(&[0i64, 1, 1, 2]);
            s.set("fmt", f1);
            s.set("fmt2", f2);
            let policy = rng.below(4) as i64;
            s.set("policy", policy);
            if rng.chance(1, 5) {
                s.set("pre_policy", rng.range(1, 4) as i64);
            }
            let eff2 = if policy == 1 || policy == 2 { f1 } else { f2 };
            let tp = match rng.below(10) {
                0 => rng.range(30_000, 100_000),
                _ => rng.range(0, 3000),
            };
            let pv = valid_stream(rng, f1 != 0, tp, 32768, None);
            let n = pv.bytes.len();
            if rng.chance(1, 3) {
                s.faults.push(random_fault(rng, n));
            }
            let style = rng.next_u64();
            let mut pops = gen::stream_ops(rng, n + 4, style, &[0, 0, 0, 1, 2, 4, 3]);
            let cut = rng.range(0, pops.len());
            pops.truncate(cut);
            if tp >= 30_000 && tp % 2 == 0 {
                // window-aligned history: the earlier stream is abandoned (or finished) after output grants of
                // exactly one or two windows, so the wrapper's ring cursor is back at 0 with nothing pending
                let r = 1 + (tp / 2) % 3;
                pops = (0..r).map(|j| vec![n as i64, 32768 * (1 + ((tp / 6 + j) % 2) as i64), 0]).collect();
                s.set("window_aligned_history", 1);
            }
            // the next stream: valid, or corrupt (incl. distances reaching before its own start)
            let tn = rng.range(0, 3000);
            let nv = valid_stream(rng, eff2 != 0, tn, 32768, None);
            let mut next = nv.bytes.clone();
            match rng.below(6) {
                0 | 1 => {
                    let mut tmp = Stats::default();
                    let f = random_fault(rng, next.len());
                    next = apply_faults(&next, &[f], &mut tmp);
                    s.set("next_corrupt", 1);
                }
                2 => {
                    let cfg = crate::foreign::GenCfg { zlib: eff2 != 0, target: rng.range(0, 300), spec: crate::foreign::Spec::DistBeforeStart, max_dist: 32768, edge: 0, alt258: false };
                    next = crate::foreign::generate(rng, &cfg).bytes;
                    s.set("next_corrupt", 2);
                }
                _ => {}
            }
            let style2 = rng.next_u64();
            let nops = gen::stream_ops(rng, next.len() + 4, style2, &[0, 0, 0, 1, 2]);
            s.ops = tag(pops, 0);
            s.ops.extend(tag(nops, 1));
            s.set_blob("prior", pv.bytes);
            s.set_blob("next", next);
        }
        _ => {
            let z1 = rng.chance(1, 2);
            let z2 = rng.chance(1, 2);
            s.set("fmt", z1 as i64);
            s.set("fmt2", z2 as i64);
            let ring = rng.chance(1, 2);
            s.set("mode", ring as i64);
            s.set("ring_bits", 15);
            s.set("ringfill", rng.below(1 << 30) as i64);
            let tp = rng.range(0, 3000);
            let pv = valid_stream(rng, z1, tp, 32768, None);
            let n = pv.bytes.len();
            if rng.chance(1, 3) {
                s.faults.push(random_fault(rng, n));
            }
            let style = rng.next_u64();
            let mut pops = gen::core_ops(rng, n + 4, style);
            let cut = rng.range(0, pops.len());
            pops.truncate(cut);
            let tn = rng.range(0, 3000);
            let nv = valid_stream(rng, z2, tn, 32768, None);
            let mut next = nv.bytes.clone();
            if rng.chance(1, 4) {
                let mut tmp = Stats::default();
                let f = random_fault(rng, next.len());
                next = apply_faults(&next, &[f], &mut tmp);
            }
            s.set("flat_cap", (nv.plain_len + pv.plain_len + 2000) as i64);
            let style2 = rng.next_u64();
            let nops = gen::core_ops(rng, next.len() + 4, style2);
            s.ops = tag(pops, 0);
            s.ops.extend(tag(nops, 1));
            s.set_blob("prior", pv.bytes);
            s.set_blob("next", next);
        }
    }
    s
}

pub fn defs() -> Vec<CheckDef> {
    vec![CheckDef {
        id: "C18",
        level: "exploration",
        runs_quick: 1_000_000,
        runs_thorough: 20_000_000,
        block: 256,
        gen: gen_c18,
        exec,
        rule: "run = object {CompressorOxide + reset(), InflateState + reset / MinReset / ZeroReset / FullReset, DecompressorOxide + init(), C deflate stream + mz_deflateReset (cabi lock step with a fresh compressor), or any pipe/dec/protocol script executed twice with junk allocations in between (determinism)} x prior history (a stream cut at an arbitrary call: mid-block, pending output, after any flush; a completed stream; a corrupt stream; an error state: non-Finish after Finish, failing callback, Finish misuse) x a different subsequent script (valid or corrupt stream, incl. distances reaching before the stream's own start), executed in lock step with a fresh object and with a second fresh object created after junk allocations (determinism); oracle: identical (status, consumed, written) and bytes after every call; non-trivial = non-empty prior history; distinct = shape fingerprint",
        shrink_cfg: &["junk"],
        shrink_blobs: false,
        assumptions: &["byte-for-byte comparison with a freshly constructed object of the same settings", "x86-64 only; seeded sampling of histories"],
    }]
}
