//! System zlib (libz.so.1.2.13, part of the image) as a second, fully independent decoder.
//! Used to validate the reference inflater and as "an independent decoder" in C10 / C11.

use libc::{c_char, c_int, c_uint, c_ulong, c_void};

#[repr(C)]
struct ZStream {
    next_in: *const u8,
    avail_in: c_uint,
    total_in: c_ulong,
    next_out: *mut u8,
    avail_out: c_uint,
    total_out: c_ulong,
    msg: *const c_char,
    state: *mut c_void,
    zalloc: *mut c_void,
    zfree: *mut c_void,
    opaque: *mut c_void,
    data_type: c_int,
    adler: c_ulong,
    reserved: c_ulong,
}

#[link(name = "z")]
extern "C" {
    fn inflateInit2_(strm: *mut ZStream, window_bits: c_int, version: *const c_char, stream_size: c_int) -> c_int;
    fn inflate(strm: *mut ZStream, flush: c_int) -> c_int;
    fn inflateEnd(strm: *mut ZStream) -> c_int;
    fn zlibVersion() -> *const c_char;
}

pub const Z_OK: i32 = 0;
pub const Z_STREAM_END: i32 = 1;
pub const Z_DATA_ERROR: i32 = -3;
pub const Z_BUF_ERROR: i32 = -5;

pub struct ZRes {
    /// Z_STREAM_END: complete; Z_DATA_ERROR: invalid; Z_OK / Z_BUF_ERROR: input ended early
    pub ret: i32,
    pub out: Vec<u8>,
    pub total_in: usize,
    pub msg: String,
}

pub fn version() -> String {
    unsafe { std::ffi::CStr::from_ptr(zlibVersion()).to_string_lossy().into_owned() }
}

/// window_bits: -15 raw, 15 zlib with 32K window, 0 zlib with the window size from the header,
/// 8..=15 zlib with a window of that size (header may declare less).
pub fn zinflate(data: &[u8], window_bits: i32, max_out: usize) -> ZRes {
    unsafe {
        let mut s: ZStream = std::mem::zeroed();
        let r = inflateInit2_(&mut s, window_bits, zlibVersion(), std::mem::size_of::<ZStream>() as c_int);
        if r != Z_OK {
            return ZRes { ret: r, out: Vec::new(), total_in: 0, msg: "init".into() };
        }
        let mut out: Vec<u8> = vec![0; (data.len() * 4 + 1024).min(max_out + 1)];
        let mut opos = 0usize;
        s.next_in = data.as_ptr();
        s.avail_in = data.len() as c_uint;
        let ret;
        loop {
            if opos == out.len() {
                if out.len() > max_out {
                    ret = -100;
                    break;
                }
                let nl = (out.len() * 2).min(max_out + 1);
                out.resize(nl, 0);
            }
            s.next_out = out.as_mut_ptr().add(opos);
            let grant = out.len() - opos;
            s.avail_out = grant as c_uint;
            let before_in = s.avail_in;
            let r = inflate(&mut s, 0);
            let wrote = grant - s.avail_out as usize;
            opos += wrote;
            if r != Z_OK {
                ret = r;
                break;
            }
            if wrote == 0 && before_in == s.avail_in {
                ret = Z_BUF_ERROR;
                break;
            }
            if s.avail_in == 0 && s.avail_out != 0 {
                // all input eaten, output space left, not at the end: truncated
                ret = Z_OK;
                break;
            }
        }
        let msg = if s.msg.is_null() { String::new() } else { std::ffi::CStr::from_ptr(s.msg).to_string_lossy().into_owned() };
        let total_in = s.total_in as usize;
        inflateEnd(&mut s);
        out.truncate(opos);
        ZRes { ret, out, total_in, msg }
    }
}
