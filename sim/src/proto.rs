//! Protocol scenarios: call histories on `inflate()` (C13) and `deflate()` (C14).
//! The oracles are invariants lifted from the property statements (DESIGN 4.13 / 4.14), deliberately
//! not a call-by-call replica of the implementation.

use crate::dec::{apply_faults, mz_code};
use crate::pipe::{make_compressor, mz_flush_of};
use crate::refinf::{self, Opts, Verdict};
use crate::rng::Hasher;
use crate::runner::RunInfo;
use crate::script::{viol, Script, Stats, Violation};
use miniz_oxide::deflate::stream::deflate;
use miniz_oxide::inflate::stream::{inflate, InflateState};
use miniz_oxide::inflate::TINFLStatus;
use miniz_oxide::{DataFormat, MZError, MZFlush, MZStatus};

fn fmt_of(v: i64) -> DataFormat {
    match v {
        1 => DataFormat::Zlib,
        2 => DataFormat::ZLibIgnoreChecksum,
        _ => DataFormat::Raw,
    }
}

// ------------------------------------------------------------------------------------------------
// C13
// ------------------------------------------------------------------------------------------------

pub fn exec_inflate_proto(s: &Script, st: &mut Stats) -> Result<RunInfo, Violation> {
    let fmtv = s.c("fmt");
    let fmt = fmt_of(fmtv);
    let zlib = fmtv != 0;
    let m = apply_faults(s.blob("stream"), &s.faults, st);
    let n = m.len();
    // two models: ring semantics (zeroed 32 KiB window) for the normal path, flat for first-call Finish
    let zero = vec![0u8; 32768];
    let o_ring = Opts { zlib, ring: Some((32768, &zero[..])), tokens: false, max_out: 4 << 20, ignore_adler: fmtv == 2 };
    let o_flat = Opts { zlib, ring: None, tokens: false, max_out: 4 << 20, ignore_adler: fmtv == 2 };
    let first_is_finish = s.ops.iter().find(|o| o.get(2).copied().unwrap_or(0) != 3).map(|o| o.get(2).copied().unwrap_or(0) == 4).unwrap_or(false);
    let v = refinf::inflate(&m, if first_is_finish { &o_flat } else { &o_ring });
    if v.verdict == Verdict::TooBig {
        st.inc("skipped_too_big");
        return Ok(RunInfo { hash: 1, nontrivial: false });
    }
    let valid = v.verdict == Verdict::Valid;
    let stream_len = if valid { v.consumed } else { usize::MAX };
    let mut state = InflateState::new_boxed(fmt);
    if s.c("prelude") != 0 {
        // the state has served another stream before (abandoned with output pending) and was reset with a
        // zeroing policy: it must behave like a new one (the MinReset policy has a known finding, see C18)
        let pre = s.blob("prelude_stream");
        let mut tiny = [0u8; 3];
        let r0 = inflate(&mut state, pre, &mut tiny[..(s.c("prelude") as usize % 4)], MZFlush::None);
        if s.c("prelude") >= 4 {
            // go on for a while (an error in a later block of the earlier stream is reached), then abandon it
            let mut pos = r0.bytes_consumed.min(pre.len());
            let mut scratch = vec![0u8; 700];
            for _ in 0..40 {
                let r = inflate(&mut state, &pre[pos..], &mut scratch, MZFlush::None);
                pos = (pos + r.bytes_consumed).min(pre.len());
                if r.status != Ok(MZStatus::Ok) {
                    break;
                }
            }
        }
        match s.c_or("prelude_policy", if s.c("prelude") % 2 == 0 { 0 } else { 1 }) {
            1 => state.reset_as(miniz_oxide::inflate::stream::ZeroReset),
            // MinReset keeps the old window (known finding of C18 for corrupt streams that read before their
            // start); the generator uses it only in front of streams that are valid or pure truncations
            2 => state.reset_as(miniz_oxide::inflate::stream::MinReset),
            3 => state.reset_as(miniz_oxide::inflate::stream::FullReset(fmt)),
            _ => state.reset(fmt),
        }
        st.inc("probe.state_reused_after_reset");
    }
    let mut delivered = 0usize;
    let mut consumed = 0usize;
    let mut sink: Vec<u8> = Vec::new();
    let mut outbuf: Vec<u8> = Vec::new();
    let mut h = Hasher::new();
    let mut calls = 0u32;
    let mut first_call = true;
    let mut finish_ever = false;
    let mut ended = false;
    let mut sticky: Option<MZError> = None; // Data or Buf once the state is dead
    let mut death_legit = false;
    let mut susp = 0u32;
    let mut tail_calls = 0usize;
    let tail_grant = s.c_or("tail_grant", 4096).max(1) as usize;
    let bound = if valid { v.consumed + v.out.len() + 8 } else { m.len() + v.out.len() + 16 + 32768 / tail_grant.min(32768) };
    let mut opi = 0usize;
    let mut saw_buf_starved = false;
    loop {
        let in_tail = opi >= s.ops.len();
        let (dl, ol, fl) = if !in_tail {
            let o = &s.ops[opi];
            (o[0].max(0) as usize, o[1].max(0) as usize, mz_flush_of(o.get(2).copied().unwrap_or(0)))
        } else {
            // canonical driver loop: offer what is left, grant >= 1 byte, flush None (Finish if one was issued)
            if ended || sticky.is_some() {
                break;
            }
            tail_calls += 1;
            if tail_calls > bound {
                return viol("C13.liveness", format!("canonical driver loop: no terminal result within {} calls ({} of {} consumed, {} of {} delivered)", bound, consumed, n, sink.len(), v.out.len()));
            }
            (n, tail_grant, if finish_ever { MZFlush::Finish } else { MZFlush::None })
        };
        opi += 1;
        delivered = (delivered + dl).min(n);
        if outbuf.len() < ol {
            outbuf.resize(ol, 0);
        }
        let inb = &m[consumed..delivered];
        let res = inflate(&mut state, inb, &mut outbuf[..ol], fl);
        calls += 1;
        st.inc("calls");
        st.inc("steps");
        let code = mz_code(&res.status);
        h.u(code as u64);
        h.u(res.bytes_consumed as u64);
        h.u(res.bytes_written as u64);
        if crate::dec::trace() {
            eprintln!("  inflate call {}: in {} out {} flush {:?} -> {:?} consumed {} written {} last_status {:?}", calls, inb.len(), ol, fl, res.status, res.bytes_consumed, res.bytes_written, state.last_status());
        }
        // 1. counts
        if res.bytes_consumed > inb.len() || res.bytes_written > ol {
            return viol("C13.counts_within_buffers", format!("call {}: consumed {} of {}, written {} of {}", calls, res.bytes_consumed, inb.len(), res.bytes_written, ol));
        }
        sink.extend_from_slice(&outbuf[..res.bytes_written]);
        consumed += res.bytes_consumed;
        // 2. prefix of the true plaintext
        if sink.len() > v.out.len() || sink[sink.len() - res.bytes_written..] != v.out[sink.len() - res.bytes_written..sink.len()] {
            return viol("C13.delivered_is_prefix", format!("call {}: delivered bytes ({} so far) are not a prefix of the plaintext ({} bytes, model verdict {:?})", calls, sink.len(), v.out.len(), v.verdict));
        }
        let progressed = res.bytes_consumed > 0 || res.bytes_written > 0;
        // expected results for calls whose result the statement fixes
        if fl == MZFlush::Full {
            if res.status != Err(MZError::Stream) || progressed {
                return viol("C13.full_flush_is_stream_error", format!("call {}: Full flush returned {:?} consumed {} written {}", calls, res.status, res.bytes_consumed, res.bytes_written));
            }
            // "the call changed nothing": verified by the run continuing to the same final result
            continue;
        }
        let was_first = first_call;
        first_call = false;
        if let Some(e) = sticky {
            if res.status != Err(e) || progressed {
                return viol(if e == MZError::Data { "C13.data_error_sticky" } else { "C13.finish_on_truncated_sticky" }, format!("call {} after {:?}: {:?} consumed {} written {}", calls, e, res.status, res.bytes_consumed, res.bytes_written));
            }
            continue;
        }
        if finish_ever && fl != MZFlush::Finish {
            if res.status != Err(MZError::Stream) || progressed {
                return viol("C13.non_finish_after_finish", format!("call {}: flush {:?} after a Finish returned {:?} consumed {} written {}", calls, fl, res.status, res.bytes_consumed, res.bytes_written));
            }
            continue;
        }
        if fl == MZFlush::Finish {
            finish_ever = true;
        }
        if ended {
            // 4. stream-end is stable
            if res.status != Ok(MZStatus::StreamEnd) || progressed {
                return viol("C13.stream_end_stable", format!("call {} after stream end: {:?} consumed {} written {}", calls, res.status, res.bytes_consumed, res.bytes_written));
            }
            continue;
        }
        // 3. progress or terminal
        if !inb.is_empty() && ol > 0 && !progressed && !matches!(res.status, Ok(MZStatus::StreamEnd) | Err(_)) {
            return viol("C13.progress_or_terminal", format!("call {}: {} bytes in, {} bytes of space, flush {:?}: nothing consumed, nothing written, status {:?}", calls, inb.len(), ol, fl, res.status));
        }
        let ls = state.last_status();
        match res.status {
            Ok(MZStatus::StreamEnd) => {
                // 4. exactly when all plaintext delivered and the stream's last byte consumed
                if !valid {
                    if v.unspecified {
                        st.inc("skipped_unspecified");
                        break;
                    }
                    return viol("C13.stream_end_only_on_valid", format!("call {}: StreamEnd but the reference decoder says {:?}", calls, v.verdict));
                }
                if sink.len() != v.out.len() || consumed != stream_len {
                    return viol("C13.stream_end_exact", format!("call {}: StreamEnd with {} of {} plaintext bytes delivered and {} of {} stream bytes consumed", calls, sink.len(), v.out.len(), consumed, stream_len));
                }
                ended = true;
            }
            Ok(_) => {
                susp += 1;
            }
            Err(MZError::Data) => {
                sticky = Some(MZError::Data);
                let poison = was_first && fl == MZFlush::Finish;
                let legit = matches!(v.verdict, Verdict::Invalid(_)) || poison;
                if !legit {
                    if v.unspecified {
                        st.inc("skipped_unspecified");
                    } else {
                        return viol("C13.no_data_error_without_cause", format!("call {}: Err(Data) but the stream is {:?} for the reference decoder and no first-call Finish was involved", calls, v.verdict));
                    }
                }
                death_legit = true;
            }
            Err(MZError::Buf) => {
                if ls == TINFLStatus::FailedCannotMakeProgress || (ls as i32) < 0 {
                    // dead: legit only for Finish on a stream that is not completely available,
                    // or the first-call Finish that could not complete
                    let avail_complete = valid && delivered >= stream_len;
                    let poison = was_first && fl == MZFlush::Finish;
                    let legit = fl == MZFlush::Finish && (!avail_complete || poison);
                    if !legit {
                        return viol("C13.buf_error_recoverable", format!("call {}: Err(Buf) left the state dead (last_status {:?}) although flush was {:?} and {} of {} stream bytes were available", calls, ls, fl, delivered, stream_len.min(n)));
                    }
                    sticky = Some(if ls == TINFLStatus::FailedCannotMakeProgress { MZError::Buf } else { MZError::Data });
                    death_legit = true;
                } else {
                    // recoverable: starved input or no output space
                    saw_buf_starved = true;
                    if in_tail && delivered == n && ol > 0 && !progressed {
                        // nothing more to supply: truncated stream under flush None
                        if valid {
                            return viol("C13.liveness", format!("canonical loop: Err(Buf) with the complete valid stream supplied ({} of {} consumed)", consumed, stream_len));
                        }
                        break;
                    }
                    susp += 1;
                }
            }
            Err(e) => {
                return viol("C13.unexpected_error", format!("call {}: {:?}", calls, e));
            }
        }
        // 4'. ... and stream-end is reported as soon as that holds ("exactly when")
        if valid && res.status != Ok(MZStatus::StreamEnd) && sink.len() == v.out.len() && consumed == stream_len {
            return viol("C13.stream_end_when_complete", format!("call {} (flush {:?}, {} in, {} out): all {} plaintext bytes delivered and all {} stream bytes consumed, but the result is {:?}", calls, fl, inb.len(), ol, v.out.len(), stream_len, res.status));
        }
        // 7. Finish with all of a truncated stream supplied => Err(Buf)
        if fl == MZFlush::Finish && s.c("trunc_of_valid") != 0 && delivered == n && inb.len() == res.bytes_consumed && !was_first {
            if !matches!(res.status, Err(MZError::Buf) | Ok(MZStatus::Ok)) {
                return viol("C13.finish_on_truncated_is_buf", format!("call {}: Finish with the whole truncated stream supplied returned {:?}", calls, res.status));
            }
        }
    }
    // end-of-history verdicts
    if s.c("trunc_of_valid") != 0 && sticky == Some(MZError::Data) && !s.ops.iter().any(|o| o.get(2) == Some(&4)) {
        return viol("C13.prefix_never_data_error", "a proper prefix of a valid stream produced Err(Data)".into());
    }
    if valid && !ended && !death_legit {
        return viol("C13.liveness", format!("valid stream, no Finish misuse, but the history ended without StreamEnd ({} of {} bytes delivered)", sink.len(), v.out.len()));
    }
    if saw_buf_starved && ended {
        st.inc("probe.buf_error_recovered");
    }
    if ended {
        st.inc("probe.ended");
    }
    if let Some(e) = sticky {
        st.inc(if e == MZError::Data { "probe.sticky_data" } else { "probe.sticky_buf" });
    }
    h.bytes(&sink);
    h.u(consumed as u64);
    Ok(RunInfo { hash: h.0, nontrivial: susp > 0 || !s.faults.is_empty() || calls > 1 })
}

// ------------------------------------------------------------------------------------------------
// C14
// ------------------------------------------------------------------------------------------------

struct DeflRun {
    out: Vec<u8>,
    consumed: usize,
    /// per executed op: (status code, consumed, written); zero-output ops included
    results: Vec<(i32, usize, usize)>,
    ended: bool,
    proto_error: bool,
    hash: u64,
    susp: u32,
}

fn run_deflate_proto(s: &Script, ops: &[Vec<i64>], plain: &[u8], st: &mut Stats, check: bool) -> Result<DeflRun, Violation> {
    let mut d = make_compressor(s);
    let n = plain.len();
    let mut delivered = 0usize;
    let mut pos = 0usize;
    let mut sink: Vec<u8> = Vec::new();
    let mut outbuf: Vec<u8> = Vec::new();
    let mut h = Hasher::new();
    let mut results = Vec::new();
    let mut ended = false;
    let mut finish_pending = false; // a Finish was issued and the stream has not ended yet
    let mut proto_error = false;
    let mut calls = 0u32;
    let mut susp = 0u32;
    let mut opi = 0usize;
    let mut tail_calls = 0usize;
    let tail_grant = s.c_or("tail_grant", 4096).max(1) as usize;
    let mut finish_calls_since = 0usize;
    let mut out_at_first_finish = 0usize;
    // the previous call was a Finish with output space that returned Ok
    let mut prev_finish_ok = false;
    loop {
        let in_tail = opi >= ops.len();
        let (chunk, ol, flv) = if !in_tail {
            let o = &ops[opi];
            (o[0].max(0) as usize, o[1].max(0) as usize, o.get(2).copied().unwrap_or(0))
        } else {
            if ended || proto_error {
                break;
            }
            tail_calls += 1;
            (n, tail_grant, 4)
        };
        opi += 1;
        delivered = (delivered + chunk).min(n);
        let fl = mz_flush_of(flv);
        if outbuf.len() < ol {
            outbuf.resize(ol, 0);
        }
        let inb = &plain[pos..delivered];
        let res = deflate(&mut d, inb, &mut outbuf[..ol], fl);
        calls += 1;
        st.inc("calls");
        st.inc("steps");
        let code = mz_code(&res.status);
        results.push((code, res.bytes_consumed, res.bytes_written));
        h.u(code as u64);
        h.u(res.bytes_consumed as u64);
        h.u(res.bytes_written as u64);
        if crate::dec::trace() {
            eprintln!("  deflate call {}: in {} out {} flush {:?} -> {:?} consumed {} written {}", calls, inb.len(), ol, fl, res.status, res.bytes_consumed, res.bytes_written);
        }
        if res.bytes_consumed > inb.len() || res.bytes_written > ol {
            return viol("C14.counts_within_buffers", format!("call {}: consumed {} of {}, written {} of {}", calls, res.bytes_consumed, inb.len(), res.bytes_written, ol));
        }
        sink.extend_from_slice(&outbuf[..res.bytes_written]);
        pos += res.bytes_consumed;
        let progressed = res.bytes_consumed > 0 || res.bytes_written > 0;
        if !check {
            if res.status == Ok(MZStatus::StreamEnd) {
                ended = true;
            }
            if matches!(res.status, Err(MZError::Param) | Err(MZError::Stream)) {
                proto_error = true;
            }
            if in_tail && tail_calls > sink.len() + n + 64 {
                break;
            }
            continue;
        }
        if ol == 0 {
            // refused without side effects (the second half is checked by the caller through re-execution)
            if res.status != Err(MZError::Buf) || progressed {
                return viol("C14.empty_output_refused", format!("call {}: empty output buffer: {:?} consumed {} written {}", calls, res.status, res.bytes_consumed, res.bytes_written));
            }
            st.inc("probe.empty_output_calls");
            continue;
        }
        if proto_error {
            // dead after a protocol error: only errors with nothing done
            if res.status.is_ok() || progressed {
                return viol("C14.error_state_stable", format!("call {} after a protocol error: {:?} consumed {} written {}", calls, res.status, res.bytes_consumed, res.bytes_written));
            }
            continue;
        }
        if ended {
            if fl == MZFlush::Finish {
                if res.status != Ok(MZStatus::StreamEnd) || progressed {
                    return viol("C14.stream_end_stable", format!("call {}: Finish after stream end: {:?} consumed {} written {}", calls, res.status, res.bytes_consumed, res.bytes_written));
                }
            } else if res.status != Err(MZError::Buf) || progressed {
                return viol("C14.after_end_is_buf_error", format!("call {}: flush {:?} after stream end: {:?} consumed {} written {}", calls, fl, res.status, res.bytes_consumed, res.bytes_written));
            }
            continue;
        }
        if finish_pending && fl != MZFlush::Finish {
            // reported as an error rather than corrupting the stream
            if res.status.is_ok() || progressed {
                return viol("C14.non_finish_after_finish_is_error", format!("call {}: flush {:?} after an unfinished Finish: {:?} consumed {} written {}", calls, fl, res.status, res.bytes_consumed, res.bytes_written));
            }
            proto_error = true;
            st.inc("probe.non_finish_after_finish");
            continue;
        }
        // progress
        let eff_none = matches!(fl, MZFlush::None | MZFlush::Block);
        if (!inb.is_empty() || !eff_none) && !progressed && !matches!(res.status, Ok(MZStatus::StreamEnd) | Err(_)) {
            return viol("C14.progress", format!("call {}: {} bytes in, {} bytes of space, flush {:?}: nothing consumed, nothing written, status {:?}", calls, inb.len(), ol, fl, res.status));
        }
        if (!inb.is_empty() || !eff_none) && !progressed && res.status == Err(MZError::Buf) {
            return viol("C14.progress", format!("call {}: {} bytes in, {} bytes of space, flush {:?}: Err(Buf) with nothing done", calls, inb.len(), ol, fl));
        }
        match res.status {
            Ok(MZStatus::StreamEnd) => {
                if fl != MZFlush::Finish {
                    return viol("C14.stream_end_only_after_finish", format!("call {}: StreamEnd under flush {:?}", calls, fl));
                }
                // "exactly once all output is delivered": the call that hands over the last byte reports the end. A
                // first StreamEnd from a call that did nothing means the previous Finish call had already delivered
                // everything and said Ok.
                if !progressed && finish_pending && prev_finish_ok {
                    return viol("C14.stream_end_exactly_when_delivered", format!("call {}: StreamEnd with nothing consumed and nothing written; the previous Finish call had already delivered the last byte but returned Ok", calls));
                }
                ended = true;
            }
            Ok(_) => {
                if fl == MZFlush::Finish && res.bytes_written != ol {
                    return viol("C14.finish_works_until_full", format!("call {}: Finish returned Ok with {} of {} output bytes used", calls, res.bytes_written, ol));
                }
                susp += 1;
            }
            Err(MZError::Buf) => {
                // only legal when there was nothing to do
                if !(inb.is_empty() && eff_none) {
                    return viol("C14.buf_error_only_when_idle", format!("call {}: Err(Buf) with {} bytes in and flush {:?}", calls, inb.len(), fl));
                }
            }
            Err(e) => {
                return viol("C14.unexpected_error", format!("call {}: {:?} (flush {:?}, {} in, {} out)", calls, e, fl, inb.len(), ol));
            }
        }
        prev_finish_ok = fl == MZFlush::Finish && res.status == Ok(MZStatus::Ok);
        if fl == MZFlush::Finish && !ended {
            if !finish_pending {
                finish_pending = true;
                out_at_first_finish = sink.len();
                finish_calls_since = 0;
            }
            finish_calls_since += 1;
        }
        if in_tail && finish_pending && !ended {
            // repeating Finish terminates: each call fills its buffer, so at most |remaining out| / grant + 16
            let _ = out_at_first_finish;
            if tail_calls > sink.len() / tail_grant + n / tail_grant + 64 + n / 3 {
                return viol("C14.finish_terminates", format!("{} Finish calls with {} bytes of space each did not end the stream ({} bytes out so far)", finish_calls_since, tail_grant, sink.len()));
            }
        }
    }
    h.bytes(&sink);
    h.u(pos as u64);
    Ok(DeflRun { out: sink, consumed: pos, results, ended, proto_error, hash: h.0, susp })
}

pub fn exec_deflate_proto(s: &Script, st: &mut Stats) -> Result<RunInfo, Violation> {
    let plain = s.blob("plain");
    let r = run_deflate_proto(s, &s.ops, plain, st, true)?;
    let zlib = make_compressor(s).data_format() == DataFormat::Zlib;
    let o = Opts { zlib, ring: None, tokens: false, max_out: 64 << 20, ignore_adler: false };
    let v = refinf::inflate(&r.out, &o);
    if r.ended {
        // stream-end only when the concatenated output is a complete stream
        if v.verdict != Verdict::Valid || v.out[..] != plain[..r.consumed] || v.consumed != r.out.len() {
            return viol("C14.stream_end_means_complete_stream", format!("StreamEnd reported but the output is {:?} for the reference decoder ({} bytes decode, {} consumed as input, stream {} of {} bytes)", v.verdict, v.out.len(), r.consumed, v.consumed, r.out.len()));
        }
        st.inc("probe.ended");
    } else {
        // protocol error: bytes emitted so far are still a prefix of a valid stream
        let okp = !matches!(v.verdict, Verdict::Invalid(_)) && v.out.len() <= plain.len() && v.out[..] == plain[..v.out.len()];
        if !okp {
            return viol("C14.error_does_not_corrupt", format!("after the protocol error the emitted bytes are not a prefix of a valid stream for the input: {:?}", v.verdict));
        }
        st.inc("probe.proto_error_runs");
    }
    // empty-output calls have no side effect: deleting them changes nothing else
    if s.ops.iter().any(|o| o[1] == 0) {
        let mut ops2: Vec<Vec<i64>> = Vec::new();
        let mut carry = 0i64;
        let mut kept_idx = Vec::new();
        for (i, o) in s.ops.iter().enumerate() {
            if o[1] == 0 {
                carry += o[0];
            } else {
                let mut o2 = o.clone();
                o2[0] += carry;
                carry = 0;
                ops2.push(o2);
                kept_idx.push(i);
            }
        }
        if carry > 0 {
            // deliveries attached to trailing empty-output ops happen in the tail anyway
        }
        let r2 = run_deflate_proto(s, &ops2, plain, st, false)?;
        // compare results of the kept ops while both runs are in the scripted part
        for (k, &i) in kept_idx.iter().enumerate() {
            if k < r2.results.len() && i < r.results.len() && r2.results[k] != r.results[i] {
                return viol("C14.empty_output_no_side_effect", format!("op {} gives {:?} with the preceding empty-output calls and {:?} without them", i, r.results[i], r2.results[k]));
            }
        }
        if r.ended && r2.ended && r.out != r2.out {
            return viol("C14.empty_output_no_side_effect", format!("emitted bytes differ when the empty-output calls are deleted ({} vs {} bytes)", r.out.len(), r2.out.len()));
        }
        st.inc("probe.empty_output_side_effect_compared");
    }
    let mut hh = Hasher::new();
    hh.u(r.hash);
    Ok(RunInfo { hash: hh.0, nontrivial: r.susp > 0 || r.proto_error || r.results.len() > 1 })
}
