//! mzsim - deterministic simulation with fault injection for miniz_oxide (see /verif/DESIGN.md).

#[cfg(all(not(debug_assertions), not(feature = "simd")))]
pub const BUILD: &str = "rel";
#[cfg(all(not(debug_assertions), feature = "simd"))]
pub const BUILD: &str = "simd";
#[cfg(debug_assertions)]
pub const BUILD: &str = "dbg";

mod cabi;
mod chaos;
mod crash;
mod dec;
mod foreign;
mod gen;
mod json;
mod pipe;
mod props_dec;
mod props_pipe;
mod props_proto;
mod proto;
mod refinf;
mod reuse;
mod rng;
mod runner;
mod script;
mod selftest;
mod sum;
mod zlibffi;

use json::J;
use runner::{CheckDef, Tier};

fn registry() -> Vec<CheckDef> {
    let mut v = Vec::new();
    v.extend(props_dec::defs());
    v.extend(props_pipe::defs());
    v.extend(props_proto::defs());
    v.extend(cabi::defs());
    v.extend(chaos::defs());
    v.extend(crash::defs());
    v.extend(reuse::defs());
    v.extend(sum::defs());
    v
}

fn find<'a>(defs: &'a [CheckDef], id: &str) -> &'a CheckDef {
    match defs.iter().find(|d| d.id == id) {
        Some(d) => d,
        None => {
            eprintln!("mzsim: unknown check '{}'", id);
            std::process::exit(2);
        }
    }
}

fn tier_of(s: &str) -> Tier {
    if s == "thorough" {
        Tier::Thorough
    } else {
        Tier::Quick
    }
}

fn main() {
    let args: Vec<String> = std::env::args().collect();
    if args.len() < 2 {
        eprintln!("usage: mzsim run <id> <tier> <seed> <out.json> | replay <file> | selftest | list");
        std::process::exit(2);
    }
    let defs = registry();
    // glibc trims the heap top whenever more than 128 KiB are free there; with the 32-330 KiB objects of
    // this library allocated and freed per run that is a brk()/page-fault storm (20x slowdown measured).
    #[cfg(not(miri))]
    unsafe {
        libc::mallopt(libc::M_TRIM_THRESHOLD, 1 << 30);
        libc::mallopt(libc::M_TOP_PAD, 64 << 20);
        libc::mallopt(libc::M_MMAP_THRESHOLD, 256 << 20);
    }
    match args[1].as_str() {
        "list" => {
            for d in &defs {
                println!("{}", d.id);
            }
        }
        "run" => {
            let def = find(&defs, &args[2]);
            let tier = tier_of(&args[3]);
            let seed: u64 = args[4].parse().expect("seed");
            let out = &args[5];
            println!("mzsim[{}]: check {} tier {:?} VERIF_SEED={} runs={}", BUILD, def.id, tier, seed, runner::total_runs(def, tier));
            let r = runner::run_batch(def, tier, seed);
            let mut o = J::obj();
            o.set("evidence", r.evidence);
            o.set("violations", J::Arr(r.violations.clone()));
            o.set("known", J::Arr(r.known.clone()));
            if let Some(e) = &r.harness_error {
                o.set("harness_error", J::s(e));
            }
            std::fs::write(out, o.pretty()).expect("write result");
            if let Some(e) = &r.harness_error {
                eprintln!("mzsim: HARNESS ERROR: {}", e);
                std::process::exit(2);
            }
            std::process::exit(if r.violations.is_empty() { 0 } else { 1 });
        }
        "worker" => {
            let def = find(&defs, &args[2]);
            let a = runner::WorkerArgs {
                tier: tier_of(&args[3]),
                seed: args[4].parse().unwrap(),
                total: args[5].parse().unwrap(),
                workers: args[6].parse().unwrap(),
                id: args[7].parse().unwrap(),
                start_block: args[8].parse().unwrap(),
                out: args[9].clone(),
                careful_block: None,
            };
            std::process::exit(runner::worker(def, &a));
        }
        "careful" => {
            let def = find(&defs, &args[2]);
            let a = runner::WorkerArgs {
                tier: tier_of(&args[3]),
                seed: args[4].parse().unwrap(),
                total: args[5].parse().unwrap(),
                workers: 1,
                id: 0,
                start_block: 0,
                out: args[7].clone(),
                careful_block: Some(args[6].parse().unwrap()),
            };
            std::process::exit(runner::worker(def, &a));
        }
        "replay" => {
            let txt = std::fs::read_to_string(&args[2]).expect("read replay file");
            let j = json::parse(&txt).expect("parse replay file");
            let s = script::Script::from_json(&j).expect("decode script");
            if s.build != BUILD && !(cfg!(miri) && s.build == "miri") {
                eprintln!("mzsim: replay file is for build '{}', this binary is '{}'", s.build, BUILD);
                std::process::exit(3);
            }
            let def = find(&defs, &s.prop);
            if s.clause.ends_with(".process_outcome") && args.get(3).map(|x| x.as_str()) != Some("--inner") {
                // the recorded outcome is a dead or hung process: re-execute in a child and watch it
                use std::os::unix::process::ExitStatusExt;
                let exe = std::env::current_exe().unwrap();
                let mut c = std::process::Command::new(exe).args(["replay", &args[2], "--inner"]).spawn().expect("spawn");
                let t0 = std::time::Instant::now();
                let what = loop {
                    match c.try_wait() {
                        Ok(Some(st)) => {
                            break if let Some(sig) = st.signal() {
                                Some(format!("process killed by signal {}", sig))
                            } else if st.code() == Some(0) {
                                None
                            } else if st.code() == Some(1) {
                                Some("violation reported by the in-process executor".to_string())
                            } else {
                                Some(format!("process exited with status {:?}", st.code()))
                            };
                        }
                        Ok(None) => {
                            if t0.elapsed().as_secs() > 60 {
                                let _ = c.kill();
                                let _ = c.wait();
                                break Some("no return within 60 s (non-termination)".to_string());
                            }
                            std::thread::sleep(std::time::Duration::from_millis(20));
                        }
                        Err(e) => break Some(format!("wait failed: {}", e)),
                    }
                };
                match what {
                    Some(w) => {
                        println!("replay: clause {} : {}", s.clause, w);
                        println!("VIOLATION property={} replay={}", s.prop, args[2]);
                        std::process::exit(1);
                    }
                    None => {
                        println!("replay: script passes");
                        std::process::exit(0);
                    }
                }
            }
            runner::install_panic_hook();
            let mut st = script::Stats::default();
            println!("replay: property={} scenario={} seed={} index={} ops={} faults={} recorded clause={}", s.prop, s.scen, s.seed, s.index, s.ops.len(), s.faults.len(), s.clause);
            match runner::exec_guarded(def, &s, &mut st) {
                runner::ExecOut::Ok(i) => {
                    println!("replay: script passes (event-log hash {:016x})", i.hash);
                    std::process::exit(0);
                }
                runner::ExecOut::Viol(v) => {
                    println!("replay: clause {} : {}", v.clause, v.detail);
                    println!("VIOLATION property={} replay={}", s.prop, args[2]);
                    std::process::exit(1);
                }
                runner::ExecOut::HarnessPanic(m) => {
                    eprintln!("mzsim: HARNESS ERROR during replay: {}", m);
                    std::process::exit(2);
                }
            }
        }
        "miri-cabi" => {
            // complement of C17 (thorough tier): small cabi scripts executed under Miri with exact-size heap
            // buffers. Usage: cargo +nightly miri run -- miri-cabi <count> <seed>
            let count: u64 = args.get(2).and_then(|x| x.parse().ok()).unwrap_or(16);
            let seed: u64 = args.get(3).and_then(|x| x.parse().ok()).unwrap_or(1);
            let def = find(&defs, "C17");
            runner::install_panic_hook();
            let mut st = script::Stats::default();
            let mut done = 0u64;
            let mut i = 0u64;
            while done < count && i < count * 400 {
                let s = runner::gen_script(def, seed, i, Tier::Quick);
                i += 1;
                let small = s.blobs.iter().all(|(_, b)| b.len() <= 300) && s.ops.len() <= 10;
                if !small {
                    continue;
                }
                done += 1;
                println!("miri-cabi: executing run {}", i - 1);
                match runner::exec_guarded(def, &s, &mut st) {
                    runner::ExecOut::Ok(_) => {}
                    runner::ExecOut::Viol(v) => {
                        println!("miri-cabi: run {} clause {} : {}", i - 1, v.clause, v.detail);
                        std::process::exit(1);
                    }
                    runner::ExecOut::HarnessPanic(m) => {
                        eprintln!("miri-cabi: HARNESS ERROR {}", m);
                        std::process::exit(2);
                    }
                }
            }
            println!("miri-cabi: {} scripts executed ({} calls into the C shim), no violation", done, st.get("calls"));
        }
        "selftest" => {
            let n: u64 = args.get(2).and_then(|x| x.parse().ok()).unwrap_or(100_000);
            std::process::exit(selftest::run(n));
        }
        "gen" => {
            // print the script of run i (debugging aid)
            let def = find(&defs, &args[2]);
            let tier = tier_of(&args[3]);
            let seed: u64 = args[4].parse().unwrap();
            let i: u64 = args[5].parse().unwrap();
            let s = runner::gen_script(def, seed, i, tier);
            println!("{}", s.to_json().pretty());
        }
        _ => {
            eprintln!("mzsim: unknown command");
            std::process::exit(2);
        }
    }
}
