//! `dec-chaos` scenario (C05): one decoder object lives through a history of calls with arbitrary input,
//! flags, output geometry; only totality-type invariants are checked. Runs in the `rel` and `dbg` builds.

use crate::props_dec::{random_fault, valid_stream};
use crate::rng::{Hasher, Rng};
use crate::runner::{CheckDef, RunInfo, Tier};
use crate::script::{viol, Script, Stats, Violation};
use miniz_oxide::inflate::core::inflate_flags::*;
use miniz_oxide::inflate::core::{decompress_with_limit, DecompressorOxide};
use miniz_oxide::inflate::stream::{inflate, InflateState, MinReset, ZeroReset};
use miniz_oxide::inflate::TINFLStatus;
use miniz_oxide::{DataFormat, MZError};

const OUT_LENS: [usize; 15] = [0, 1, 2, 3, 5, 100, 255, 256, 257, 1000, 1024, 4096, 32768, 40000, 65536];

fn image(r: &DecompressorOxide) -> Vec<u8> {
    rmp_serde::to_vec(r).unwrap_or_default()
}

pub fn exec(s: &Script, st: &mut Stats) -> Result<RunInfo, Violation> {
    let pool = s.blob("data");
    let mut r = Box::new(DecompressorOxide::new());
    let fmt = match s.c("fmt") {
        1 => DataFormat::Zlib,
        2 => DataFormat::ZLibIgnoreChecksum,
        _ => DataFormat::Raw,
    };
    let mut ist = InflateState::new_boxed(fmt);
    let mut cursor = 0usize;
    let mut icursor = 0usize;
    let mut h = Hasher::new();
    let mut failed_sticky = false;
    let mut adler_sticky = false;
    let mut data_sticky = false;
    let mut out: Vec<u8> = Vec::new();
    let mut nontrivial = false;
    for (k, op) in s.ops.iter().enumerate() {
        let kind = op[0];
        let in_off = op[1];
        let in_len = op[2].max(0) as usize;
        let flags = (op[3] & 0xFF) as u32;
        let out_len = op[4].max(0) as usize;
        let out_pos = op[5].max(0) as usize;
        let out_max = if op[6] < 0 { usize::MAX } else { op[6] as usize };
        let start = if in_off < 0 { if kind == 1 { icursor } else { cursor } } else { (in_off as usize).min(pool.len()) };
        let end = (start + in_len).min(pool.len());
        let inb = &pool[start..end];
        st.inc("calls");
        st.inc("steps");
        match kind {
            0 => {
                if op.get(7).copied().unwrap_or(0) != 0 {
                    r.init();
                    failed_sticky = false;
                    adler_sticky = false;
                    st.inc("probe.init_ops");
                }
                // the slice may change between calls: re-create it when the length differs
                if out.len() != out_len {
                    out = vec![0x5Au8; out_len];
                }
                let wrapping = flags & TINFL_FLAG_USING_NON_WRAPPING_OUTPUT_BUF == 0;
                let unusable = (wrapping && out_len != 0 && !out_len.is_power_of_two()) || out_pos > out_len;
                let before = if unusable { Some(image(&r)) } else { None };
                let (status, c, w) = decompress_with_limit(&mut r, inb, &mut out, out_pos, out_max, flags);
                h.u(status as i32 as u64);
                h.u(c as u64);
                h.u(w as u64);
                if c > inb.len() {
                    return viol("C05.consumed_le_offered", format!("call {}: consumed {} > offered {}", k, c, inb.len()));
                }
                let space = out_len.saturating_sub(out_pos).min(out_max);
                if w > space {
                    return viol("C05.written_le_space", format!("call {}: written {} > available {} (len {}, out_pos {}, out_max {})", k, w, space, out_len, out_pos, out_max as i64));
                }
                if unusable {
                    st.inc("probe.unusable_geometry");
                    if status != TINFLStatus::BadParam || c != 0 || w != 0 {
                        return viol("C05.bad_geometry_is_param_error", format!("call {}: len {} out_pos {} flags {:#x}: status {:?} consumed {} written {}", k, out_len, out_pos, flags, status, c, w));
                    }
                    if before.as_ref() != Some(&image(&r)) {
                        return viol("C05.param_error_leaves_state", format!("call {}: decoder state changed by a call rejected with BadParam", k));
                    }
                } else {
                    if status == TINFLStatus::BadParam {
                        return viol("C05.usable_geometry_not_param_error", format!("call {}: len {} out_pos {} flags {:#x}: BadParam", k, out_len, out_pos, flags));
                    }
                    if failed_sticky && status != TINFLStatus::Failed {
                        return viol("C05.failure_absorbing", format!("call {}: status {:?} after an earlier Failed without init()", k, status));
                    }
                    // a stream that ended with a checksum mismatch stays failed for every later call that still
                    // asks for the checksum to be verified
                    if adler_sticky && flags & TINFL_FLAG_PARSE_ZLIB_HEADER != 0 && flags & TINFL_FLAG_IGNORE_ADLER32 == 0 && (status as i32) >= 0 {
                        return viol("C05.failure_absorbing", format!("call {}: status {:?} after an earlier Adler32Mismatch without init()", k, status));
                    }
                    if status == TINFLStatus::Adler32Mismatch {
                        adler_sticky = true;
                        st.inc("probe.adler_mismatch_calls");
                    }
                    if status == TINFLStatus::Failed {
                        failed_sticky = true;
                        st.inc("probe.failed_calls");
                    }
                    if status == TINFLStatus::HasMoreOutput || status == TINFLStatus::NeedsMoreInput {
                        nontrivial = true;
                    }
                    cursor = (start + c) % pool.len().max(1);
                }
            }
            1 => {
                let fl = crate::pipe::mz_flush_of(flags as i64 % 6);
                match op.get(7).copied().unwrap_or(0) {
                    1 => {
                        ist.reset_as(MinReset);
                        data_sticky = false;
                    }
                    2 => {
                        ist.reset_as(ZeroReset);
                        data_sticky = false;
                    }
                    3 => {
                        ist.reset(fmt);
                        data_sticky = false;
                    }
                    _ => {}
                }
                if out.len() != out_len {
                    out = vec![0x5Au8; out_len];
                }
                let res = inflate(&mut ist, inb, &mut out, fl);
                h.u(crate::dec::mz_code(&res.status) as u64);
                h.u(res.bytes_consumed as u64);
                h.u(res.bytes_written as u64);
                if res.bytes_consumed > inb.len() || res.bytes_written > out_len {
                    return viol("C05.stream_counts", format!("inflate call {}: consumed {} of {}, written {} of {}", k, res.bytes_consumed, inb.len(), res.bytes_written, out_len));
                }
                if data_sticky && fl != miniz_oxide::MZFlush::Full && res.status != Err(MZError::Data) {
                    return viol("C05.stream_failure_absorbing", format!("inflate call {}: {:?} after an earlier Err(Data) without reset", k, res.status));
                }
                if res.status == Err(MZError::Data) {
                    data_sticky = true;
                }
                if res.status.is_ok() {
                    nontrivial = true;
                }
                icursor = (start + res.bytes_consumed) % pool.len().max(1);
            }
            2 => {
                let lim = if op[6] < 0 { usize::MAX } else { op[6] as usize };
                let zl = flags & 1 != 0;
                let res = if zl { miniz_oxide::inflate::decompress_to_vec_zlib_with_limit(inb, lim) } else { miniz_oxide::inflate::decompress_to_vec_with_limit(inb, lim) };
                match res {
                    Ok(v) => {
                        if v.len() > lim {
                            return viol("C05.vec_limit", format!("call {}: {} bytes > limit {}", k, v.len(), lim));
                        }
                        h.bytes(&v);
                    }
                    Err(e) => h.u(e.status as i32 as u64),
                }
            }
            _ => {
                if out.len() != out_len {
                    out = vec![0x5Au8; out_len];
                }
                let mid = inb.len() / 2;
                let parts: Vec<&[u8]> = if flags & 8 != 0 && flags & 16 != 0 {
                    Vec::new() // an iterator that yields nothing
                } else if flags & 2 != 0 {
                    vec![&inb[..mid], &inb[mid..]]
                } else {
                    vec![inb]
                };
                let res = miniz_oxide::inflate::decompress_slice_iter_to_slice(&mut out, parts.into_iter(), flags & 1 != 0, flags & 64 != 0);
                match res {
                    Ok(nw) => {
                        if nw > out_len {
                            return viol("C05.slice_iter_count", format!("call {}: {} > {}", k, nw, out_len));
                        }
                        h.u(nw as u64);
                    }
                    Err(e) => h.u(e as i32 as u64),
                }
            }
        }
    }
    Ok(RunInfo { hash: h.0, nontrivial })
}

pub fn gen_c05(rng: &mut Rng, _i: u64, _tier: Tier) -> Script {
    let mut s = Script::new("C05", "dec-chaos");
    let zlib = rng.chance(1, 2);
    s.set("fmt", if zlib { rng.pick(&[1i64, 2]) } else { 0 });
    // data pool: valid stream, mutated copy, random bytes
    let target = match rng.below(20) {
        0 => rng.range(20_000, 80_000),
        1 | 2 => rng.range(600, 6000),
        _ => rng.range(0, 500),
    };
    crate::props_dec::ALLOW_ALT258.with(|c| c.set(true));
    let vs = valid_stream(rng, zlib, target, 32768, None);
    crate::props_dec::ALLOW_ALT258.with(|c| c.set(false));
    let mut pool = vs.bytes.clone();
    let valid_len = pool.len();
    let mut tmp = crate::script::Stats::default();
    if rng.chance(2, 3) {
        let f = random_fault(rng, valid_len);
        let m = crate::dec::apply_faults(&vs.bytes, &[f], &mut tmp);
        pool.extend_from_slice(&m);
    }
    if zlib && valid_len >= 6 && rng.chance(1, 6) {
        // the pool starts with a frame that is fine up to its trailer
        let mut m = vs.bytes.clone();
        let k = valid_len - 1 - rng.usize_below(4);
        m[k] ^= 1 << rng.below(8);
        m.extend_from_slice(&pool);
        pool = m;
    }
    let rl = rng.range(0, 300);
    let rb = rng.bytes(rl);
    pool.extend_from_slice(&rb);
    if pool.is_empty() {
        pool.push(3);
    }
    let ncalls = rng.range(1, 40);
    let mode = rng.below(4); // 0: mostly sane progression, 1: wild, 2: mix, 3: stateless entries too
    for _ in 0..ncalls {
        let kind = match mode {
            3 => rng.pick(&[0i64, 0, 1, 1, 2, 3]),
            _ => rng.pick(&[0i64, 0, 0, 1]),
        };
        let wild = mode == 1 || (mode == 2 && rng.chance(1, 3));
        let in_off = if wild && rng.chance(1, 2) { rng.usize_below(pool.len()) as i64 } else { -1 };
        let in_len = match rng.below(8) {
            0 => 0,
            1 => 1,
            2 => rng.range(2, 13),
            3 => rng.range(14, 100),
            _ => pool.len(),
        };
        let flags = if wild || rng.chance(1, 4) {
            rng.below(256) as i64
        } else {
            let mut f = rng.pick(&[4i64, 4, 0, 6, 2]);
            if zlib {
                f |= 1;
            }
            f
        };
        let out_len = if wild || rng.chance(1, 3) { OUT_LENS[rng.usize_below(OUT_LENS.len())] } else { rng.pick(&[32768usize, 65536, 4096, 40000]) };
        let out_pos = match rng.below(6) {
            0 => 0,
            1 => out_len + 1,
            2 => out_len,
            _ => rng.range(0, out_len),
        };
        let out_max = match rng.below(8) {
            0 => 0,
            1 => 1,
            2 => 2,
            3 => 3,
            4 => rng.pick(&[258i64, 259]),
            5 => out_len as i64,
            _ => -1,
        };
        let extra = if rng.chance(1, 12) { rng.range(1, 3) as i64 } else { 0 };
        s.ops.push(vec![kind, in_off, in_len as i64, flags, out_len as i64, out_pos as i64, out_max, extra]);
    }
    s.set_blob("data", pool);
    s
}

pub fn defs() -> Vec<CheckDef> {
    vec![CheckDef {
        id: "C05",
        level: "fault_enumeration",
        runs_quick: 600_000,
        runs_thorough: 10_000_000,
        block: 512,
        gen: gen_c05,
        exec,
        rule: "run = one DecompressorOxide and one InflateState living through 1..40 calls; every call draws input (continuation of a valid stream, of a mutated copy, random bytes, or an arbitrary offset of that pool; 0 / 1 / small / >= 14 / all bytes), any of the 2^8 flag sets (incl. stop-on-block-boundary), an output slice from {0,1,2,3,5,100,255,256,257,1000,1024,4096,32768,40000,65536} that may change between calls, out_pos in 0..=len+1, out_max from {0,1,2,3,258,259,len,max}, occasional init()/reset; also decompress_to_vec*_with_limit and the slice iterator. Executed in the release build and in a debug-assertions + overflow-checks build under a process watchdog. non-trivial = a call suspended (NeedsMoreInput / HasMoreOutput / Ok); distinct = shape fingerprint",
        shrink_cfg: &[],
        shrink_blobs: false,
        assumptions: &[
            "process watchdog: a run silent for 120 s (60 s when re-executed alone) counts as non-termination",
            "totality invariants only; decoded bytes are not compared here (C03/C04/C07 do that)",
            "x86-64 only; release and debug-assertions profiles",
        ],
    }]
}
