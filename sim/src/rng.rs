//! SplitMix64 seeding + xoshiro256** streams. No external crate so that replay never depends on
//! a dependency version. Only script *generators* draw from this; executors never do.

#[derive(Clone)]
pub struct Rng {
    s: [u64; 4],
}

pub fn splitmix(x: &mut u64) -> u64 {
    *x = x.wrapping_add(0x9E37_79B9_7F4A_7C15);
    let mut z = *x;
    z = (z ^ (z >> 30)).wrapping_mul(0xBF58_476D_1CE4_E5B9);
    z = (z ^ (z >> 27)).wrapping_mul(0x94D0_49BB_1331_11EB);
    z ^ (z >> 31)
}

pub fn fnv64(s: &[u8]) -> u64 {
    let mut h = 0xcbf2_9ce4_8422_2325u64;
    for &b in s {
        h ^= b as u64;
        h = h.wrapping_mul(0x0000_0100_0000_01B3);
    }
    h
}

/// Seed of run `i` of check `name` under batch seed `verif_seed`.
pub fn run_seed(verif_seed: u64, name: &str, i: u64) -> u64 {
    let mut x = verif_seed ^ fnv64(name.as_bytes()) ^ i.wrapping_mul(0x9E37_79B9_7F4A_7C15);
    splitmix(&mut x)
}

impl Rng {
    pub fn new(seed: u64) -> Rng {
        let mut x = seed;
        let s = [splitmix(&mut x), splitmix(&mut x), splitmix(&mut x), splitmix(&mut x)];
        Rng { s }
    }
    #[inline]
    pub fn next_u64(&mut self) -> u64 {
        let r = self.s[1].wrapping_mul(5).rotate_left(7).wrapping_mul(9);
        let t = self.s[1] << 17;
        self.s[2] ^= self.s[0];
        self.s[3] ^= self.s[1];
        self.s[1] ^= self.s[2];
        self.s[0] ^= self.s[3];
        self.s[2] ^= t;
        self.s[3] = self.s[3].rotate_left(45);
        r
    }
    /// Uniform in 0..n (n > 0).
    #[inline]
    pub fn below(&mut self, n: u64) -> u64 {
        debug_assert!(n > 0);
        // multiply-shift; bias is irrelevant here
        ((self.next_u64() as u128 * n as u128) >> 64) as u64
    }
    #[inline]
    pub fn usize_below(&mut self, n: usize) -> usize {
        self.below(n as u64) as usize
    }
    /// Uniform in lo..=hi
    #[inline]
    pub fn range(&mut self, lo: usize, hi: usize) -> usize {
        debug_assert!(lo <= hi);
        lo + self.below((hi - lo) as u64 + 1) as usize
    }
    #[inline]
    pub fn chance(&mut self, num: u64, den: u64) -> bool {
        self.below(den) < num
    }
    #[inline]
    pub fn pick<T: Copy>(&mut self, xs: &[T]) -> T {
        xs[self.usize_below(xs.len())]
    }
    pub fn bytes(&mut self, n: usize) -> Vec<u8> {
        let mut v = Vec::with_capacity(n + 8);
        while v.len() < n {
            v.extend_from_slice(&self.next_u64().to_le_bytes());
        }
        v.truncate(n);
        v
    }
    pub fn fork(&mut self) -> Rng {
        Rng::new(self.next_u64())
    }
    /// Geometric-ish small number: 0.. with mean about `mean`.
    pub fn small(&mut self, mean: usize) -> usize {
        let mut n = 0;
        while self.below(mean as u64 + 1) != 0 && n < mean * 8 {
            n += 1;
        }
        n
    }
}

/// Order-sensitive running hash used for event logs / batch digests.
#[derive(Clone, Copy)]
pub struct Hasher(pub u64);
impl Hasher {
    pub fn new() -> Hasher {
        Hasher(0x243F_6A88_85A3_08D3)
    }
    #[inline]
    pub fn u(&mut self, v: u64) {
        let mut x = self.0 ^ v.wrapping_mul(0x9E37_79B9_7F4A_7C15);
        x = (x ^ (x >> 32)).wrapping_mul(0xD6E8_FEB8_6659_FD93);
        x = (x ^ (x >> 32)).wrapping_mul(0xD6E8_FEB8_6659_FD93);
        self.0 = x ^ (x >> 32);
    }
    pub fn bytes(&mut self, b: &[u8]) {
        self.u(b.len() as u64);
        let mut it = b.chunks_exact(8);
        for c in &mut it {
            self.u(u64::from_le_bytes(c.try_into().unwrap()));
        }
        let r = it.remainder();
        if !r.is_empty() {
            let mut t = [0u8; 8];
            t[..r.len()].copy_from_slice(r);
            self.u(u64::from_le_bytes(t));
        }
    }
}
