//! `crash` scenario (C19): the decoder node is killed between two calls and restarted from what was
//! durable: a Clone, a serde image (rmp-serde round trip), or the documented BlockBoundaryState plus
//! the last 32 KiB of output. Oracle: the uninterrupted run of the same real decoder.

use crate::dec::{apply_faults, ring_pattern, run_core, run_inflate_snap, CoreCfg, DecRun};
use crate::gen;
use crate::props_dec::{random_fault, valid_stream};
use crate::refinf::{self, Opts, Verdict};
use crate::rng::{Hasher, Rng};
use crate::runner::{CheckDef, RunInfo, Tier};
use crate::script::{viol, Script, Stats, Violation};
use miniz_oxide::inflate::core::inflate_flags::*;
use miniz_oxide::inflate::core::{decompress, DecompressorOxide};
use miniz_oxide::inflate::TINFLStatus;
use miniz_oxide::DataFormat;

fn same(b: &DecRun, r: &DecRun, what: String) -> Result<(), Violation> {
    if r.out != b.out {
        let nn = r.out.len().min(b.out.len());
        let idx = (0..nn).find(|&i| r.out[i] != b.out[i]).unwrap_or(nn);
        return viol("C19.output_equal", format!("{}: output differs from the uninterrupted run at byte {} (lengths {} vs {})", what, idx, r.out.len(), b.out.len()));
    }
    if r.term != b.term {
        return viol("C19.verdict_equal", format!("{}: final verdict {:?}, uninterrupted run gave {:?}", what, r.term, b.term));
    }
    if r.consumed != b.consumed {
        return viol("C19.consumed_equal", format!("{}: consumed {} vs {}", what, r.consumed, b.consumed));
    }
    if r.adler != b.adler {
        return viol("C19.checksum_equal", format!("{}: running checksum {:?} vs {:?}", what, r.adler, b.adler));
    }
    Ok(())
}

struct Boundary {
    out_off: usize,
    consumed: usize,
}

/// Decode `m` flat with stop-on-block-boundary under `ops`; optionally rebuild the decoder from the
/// boundary record at boundary number `rebuild_at` (0-based). Returns (output, final status, consumed,
/// boundaries).
fn run_bb(m: &[u8], zlib: bool, ops: &[Vec<i64>], rebuild_at: Option<usize>, cap: usize, ring: Option<&[u8]>, st: &mut Stats) -> Result<(Vec<u8>, TINFLStatus, usize, Vec<Boundary>), Violation> {
    let mut r = DecompressorOxide::new();
    // flat buffer of `cap` bytes, or a power-of-two ring (wrapping mode) with the given initial contents
    let mut out = match ring {
        Some(init) => init.to_vec(),
        None => vec![0xC3u8; cap],
    };
    let mask = if ring.is_some() { out.len() - 1 } else { usize::MAX };
    let mut out_pos = 0usize; // position in `out`
    let mut base = 0usize; // plaintext offset of out[0]
    let mut sink: Vec<u8> = Vec::new();
    let n = m.len();
    let mut delivered = 0usize;
    let mut consumed = 0usize;
    let mut bounds: Vec<Boundary> = Vec::new();
    let mut opi = 0usize;
    let mut tail = 0usize;
    let flags0 = if ring.is_some() { 0 } else { TINFL_FLAG_USING_NON_WRAPPING_OUTPUT_BUF } | TINFL_FLAG_STOP_ON_BLOCK_BOUNDARY | if zlib { TINFL_FLAG_PARSE_ZLIB_HEADER } else { 0 };
    loop {
        let dl = if opi < ops.len() {
            ops[opi][0].max(0) as usize
        } else {
            tail += 1;
            if tail > 100_000 {
                return viol("C19.liveness", "block-boundary driver loop did not terminate".into());
            }
            n
        };
        opi += 1;
        delivered = (delivered + dl).min(n);
        let flags = flags0 | if delivered < n { TINFL_FLAG_HAS_MORE_INPUT } else { 0 };
        let (s, c, w) = decompress(&mut r, &m[consumed..delivered], &mut out, out_pos, flags);
        st.inc("calls");
        st.inc("steps");
        sink.extend_from_slice(&out[out_pos..out_pos + w]);
        out_pos = if ring.is_some() { (out_pos + w) & mask } else { out_pos + w };
        consumed += c;
        let _ = base;
        match s {
            TINFLStatus::BlockBoundary => {
                let rec = match r.block_boundary_state() {
                    Some(x) => x,
                    None => return viol("C19.boundary_record_available", "BlockBoundary returned but block_boundary_state() is None".into()),
                };
                if rec.num_bits >= 8 {
                    return viol("C19.boundary_bits", format!("num_bits = {}", rec.num_bits));
                }
                if (rec.bit_buf as u32) >> rec.num_bits != 0 {
                    return viol("C19.boundary_bits", format!("bit_buf {:#x} has bits above num_bits {}", rec.bit_buf, rec.num_bits));
                }
                if rec.num_bits > 0 {
                    let last = m[consumed - 1];
                    let want = last >> (8 - rec.num_bits);
                    if rec.bit_buf != want {
                        return viol("C19.boundary_bits", format!("bit_buf {:#x} != top {} bits {:#x} of the last consumed byte {:#04x}", rec.bit_buf, rec.num_bits, want, last));
                    }
                }
                let idx = bounds.len();
                bounds.push(Boundary { out_off: sink.len(), consumed });
                if rebuild_at == Some(idx) {
                    // kill the node; rebuild from the record (+ last 32 KiB of output in a NEW buffer)
                    let rec2 = if zlib {
                        rec.clone()
                    } else {
                        // raw: only num_bits / bit_buf are required, the rest defaulted (as documented)
                        miniz_oxide::inflate::core::BlockBoundaryState { num_bits: rec.num_bits, bit_buf: rec.bit_buf, ..Default::default() }
                    };
                    r = DecompressorOxide::from_block_boundary_state(&rec2);
                    if ring.is_some() {
                        // a NEW ring holding only the last 32 KiB (or one ring) of output at their ring positions
                        let keep = sink.len().min(32768).min(out.len());
                        let mut nb = vec![0xEEu8; out.len()];
                        for i in 0..keep {
                            let off = sink.len() - keep + i;
                            nb[off & mask] = sink[off];
                        }
                        out = nb;
                    } else {
                        let keep = sink.len().min(32768);
                        let mut nb = vec![0xEEu8; cap];
                        nb[..keep].copy_from_slice(&sink[sink.len() - keep..]);
                        out = nb;
                        out_pos = keep;
                        base = sink.len() - keep;
                    }
                    st.inc("fault.crash_restart_boundary_record");
                }
            }
            TINFLStatus::NeedsMoreInput => {
                if delivered == n && opi >= ops.len() {
                    return Ok((sink, s, consumed, bounds));
                }
            }
            TINFLStatus::HasMoreOutput => {
                if ring.is_none() && out_pos == out.len() {
                    return Ok((sink, s, consumed, bounds));
                }
            }
            _ => return Ok((sink, s, consumed, bounds)),
        }
    }
}

pub fn exec(s: &Script, st: &mut Stats) -> Result<RunInfo, Violation> {
    let zlib = s.c("zlib") != 0;
    let kind = s.c("snap_kind"); // 1 clone, 2 serde, 3 clone InflateState, 4 block boundary
    let mode = s.c("mode");
    let m = apply_faults(s.blob("stream"), &s.faults, st);
    let ring_bits = s.c_or("ring_bits", 15) as usize;
    let ring_sz = 1usize << ring_bits;
    let ring_init = if mode == 1 { ring_pattern(s.c("ringfill") as u64, ring_sz) } else { Vec::new() };
    let wrapper_ring = vec![0u8; 32768];
    let opts = Opts {
        zlib,
        ring: if kind == 3 {
            Some((32768, &wrapper_ring[..]))
        } else if mode == 1 {
            Some((ring_sz, &ring_init[..]))
        } else {
            None
        },
        tokens: false,
        max_out: 8 << 20,
        ignore_adler: false,
    };
    let v = refinf::inflate(&m, &opts);
    if v.verdict == Verdict::TooBig {
        return Ok(RunInfo { hash: 1, nontrivial: false });
    }
    let mut hh = Hasher::new();
    match kind {
        1 | 2 => {
            let mk = |snap: Option<(u32, i64)>| CoreCfg {
                zlib,
                ring: if mode == 1 { Some(ring_sz) } else { None },
                ring_init: &ring_init,
                flat_cap: v.out.len() + 600,
                hasmore: s.c("hasmore"),
                extra_flags: if s.c("compute_adler") != 0 { TINFL_FLAG_COMPUTE_ADLER32 } else { 0 },
                canary: false,
                probe: s.c("probe") != 0,
                expect: &v.out,
                expect_exact: false,
                tail_cap: v.out.len() / (if mode == 1 { ring_sz } else { 1 << 30 }) + 8,
                clause_prefix: "C19",
                snap,
                adler_probe: false,
                post_done: false,
                prelude: None,
            };
            let base = run_core(&m, &mk(None), &s.ops, st)?;
            hh.u(base.hash);
            let at = s.c_or("snap_at", -1);
            let ks: Vec<u32> = if at >= 0 { vec![at as u32 + 1] } else { (1..=base.calls.min(200)).collect() };
            for k in ks {
                if k > base.calls {
                    continue;
                }
                let r = run_core(&m, &mk(Some((k, kind))), &s.ops, st)?;
                same(&base, &r, format!("restart from a {} taken after call {}", if kind == 2 { "serde image" } else { "clone" }, k))?;
            }
            Ok(RunInfo { hash: hh.0, nontrivial: base.calls > 1 })
        }
        3 => {
            let fmt = if zlib { DataFormat::Zlib } else { DataFormat::Raw };
            let tail_cap = v.out.len() / 4096 + m.len() + 16;
            let base = run_inflate_snap(&m, fmt, &s.ops, s.c("finish_tail") != 0, false, tail_cap, st, "C19", None, None)?;
            hh.u(base.hash);
            let at = s.c_or("snap_at", -1);
            let ks: Vec<u32> = if at >= 0 { vec![at as u32 + 1] } else { (1..=base.calls.min(200)).collect() };
            for k in ks {
                if k > base.calls {
                    continue;
                }
                let r = run_inflate_snap(&m, fmt, &s.ops, s.c("finish_tail") != 0, false, tail_cap, st, "C19", Some(k), None)?;
                same(&base, &r, format!("restart from a clone of InflateState taken after call {}", k))?;
            }
            Ok(RunInfo { hash: hh.0, nontrivial: base.calls > 1 })
        }
        _ => {
            // block boundary
            let cap = v.out.len() + 32768 + 600;
            let ring: Option<&[u8]> = if mode == 1 { Some(&ring_init[..]) } else { None };
            let (out0, s0, c0, b0) = run_bb(&m, zlib, &s.ops, None, cap, ring, st)?;
            hh.bytes(&out0);
            hh.u(s0 as i32 as u64);
            hh.u(c0 as u64);
            // a stop is reported exactly once after each non-final block (ground truth: reference decoder)
            let complete_blocks: Vec<&refinf::Block> = v.blocks.iter().filter(|b| b.complete).collect();
            let expect: Vec<usize> = complete_blocks.iter().filter(|b| !b.bfinal).map(|b| b.out_end).collect();
            let got: Vec<usize> = b0.iter().map(|b| b.out_off).collect();
            if got != expect {
                return viol("C19.boundary_once_per_nonfinal_block", format!("block boundaries reported at plaintext offsets {:?}, the stream's non-final blocks end at {:?} (model verdict {:?})", &got[..got.len().min(12)], &expect[..expect.len().min(12)], v.verdict));
            }
            st.add("probe.block_boundaries", b0.len() as u64);
            if v.verdict == Verdict::Valid && (s0 != TINFLStatus::Done || out0 != v.out) {
                return viol("C19.boundary_mode_completes", format!("valid stream with stop-on-boundary ended with {:?} ({} of {} bytes)", s0, out0.len(), v.out.len()));
            }
            let at = s.c_or("snap_at", -1);
            let mut idxs: Vec<usize> = if at >= 0 { vec![at as usize] } else { (0..b0.len().min(64)).collect() };
            if ring.is_some() && (v.prehistory_reads > 0 || ring_sz > 32768) {
                // a corrupt stream that copies from before its own start reads the ring's initial contents, which
                // the documented record (last 32 KiB of output) does not include: nothing to compare
                idxs.clear();
            }
            for j in idxs {
                if j >= b0.len() {
                    continue;
                }
                let (out1, s1, c1, _) = run_bb(&m, zlib, &s.ops, Some(j), cap, ring, st)?;
                if out1 != out0 {
                    let nn = out1.len().min(out0.len());
                    let idx = (0..nn).find(|&i| out1[i] != out0[i]).unwrap_or(nn);
                    return viol("C19.output_equal", format!("rebuilt from the boundary record at boundary {} (plaintext offset {}, input offset {}): output differs at byte {} (lengths {} vs {})", j, b0[j].out_off, b0[j].consumed, idx, out1.len(), out0.len()));
                }
                if s1 != s0 {
                    return viol("C19.verdict_equal", format!("rebuilt from the boundary record at boundary {}: final status {:?} vs {:?}", j, s1, s0));
                }
                if c1 != c0 {
                    return viol("C19.consumed_equal", format!("rebuilt from the boundary record at boundary {}: consumed {} vs {}", j, c1, c0));
                }
            }
            Ok(RunInfo { hash: hh.0, nontrivial: !b0.is_empty() })
        }
    }
}

pub fn gen_c19(rng: &mut Rng, _i: u64, tier: Tier) -> Script {
    let mut s = Script::new("C19", "crash");
    let zlib = rng.chance(1, 2);
    s.set("zlib", zlib as i64);
    let kind = rng.pick(&[1i64, 1, 2, 2, 3, 4, 4]);
    s.set("snap_kind", kind);
    s.set("probe", rng.chance(1, 4) as i64);
    let target = match rng.below(20) {
        0 if tier == Tier::Thorough => rng.range(30_000, 150_000),
        0 | 1 => rng.range(5_000, 40_000),
        2 | 3 | 4 => rng.range(600, 5000),
        _ => rng.range(0, 600),
    };
    let mut vs = valid_stream(rng, zlib, target, 32768, None);
    if zlib && rng.chance(1, 25) {
        // a frame with a block boundary exactly where the running Adler-32 of the output is special (0, 1, a zero
        // half): the checksum travels in the boundary record / the snapshot
        let (ta, tb) = gen::adler_special(rng);
        let pl = rng.pick(&[0usize, 30, 500]);
        let t = gen::adler_target(rng, ta, tb, pl);
        let mut c = miniz_oxide::deflate::core::CompressorOxide::with_params(miniz_oxide::DataFormat::Zlib, rng.pick(&[0u8, 1, 6]), miniz_oxide::deflate::core::CompressionStrategy::Default, 15);
        let mut out: Vec<u8> = Vec::new();
        let extra = { let n = rng.range(1, 400); rng.bytes(n) };
        for (chunk, fl) in [(&t[..], miniz_oxide::deflate::core::TDEFLFlush::Sync), (&extra[..], miniz_oxide::deflate::core::TDEFLFlush::Finish)] {
            let _ = miniz_oxide::deflate::core::compress_to_output(&mut c, chunk, fl, |b: &[u8]| {
                out.extend_from_slice(b);
                true
            });
        }
        vs.plain_len = t.len() + extra.len();
        vs.max_dist = 32768;
        vs.cinfo = 7;
        vs.enc_len = out.len();
        vs.bytes = out;
    }
    let n = vs.bytes.len();
    if rng.chance(1, 4) {
        s.faults.push(random_fault(rng, n));
    }
    let style = rng.next_u64();
    match kind {
        3 => {
            s.ops = gen::stream_ops(rng, n + 4, style, &[0, 0, 0, 1, 2, 5]);
            s.set("finish_tail", rng.chance(1, 2) as i64);
        }
        4 => {
            // chunked delivery or everything at once
            if rng.chance(1, 2) {
                s.ops = gen::core_ops(rng, n + 4, style & !0xC).iter().map(|o| vec![o[0]]).collect();
            }
            if rng.chance(1, 3) {
                // wrapping output buffer: blocks may end exactly where the ring ends
                let mut b = 0usize;
                while (1usize << b) < vs.max_dist {
                    b += 1;
                }
                if zlib {
                    b = b.max(vs.cinfo as usize + 8);
                }
                if vs.plain_len > 2000 {
                    b = b.max(8);
                }
                let bits = if s.faults.is_empty() { rng.range(b.min(15), 15) } else { 15 };
                s.set("mode", 1);
                s.set("ring_bits", bits as i64);
                s.set("ringfill", rng.below(1 << 30) as i64);
            }
        }
        _ => {
            let ring = rng.chance(1, 2);
            s.set("mode", ring as i64);
            if ring {
                let mut b = 0usize;
                while (1usize << b) < vs.max_dist {
                    b += 1;
                }
                if zlib {
                    b = b.max(vs.cinfo as usize + 8);
                }
                if vs.plain_len > 2000 {
                    b = b.max(8);
                }
                let bits = if s.faults.is_empty() { rng.range(b.min(15), 15) } else { 15 };
                s.set("ring_bits", bits as i64);
                s.set("ringfill", rng.below(1 << 30) as i64);
            }
            s.ops = gen::core_ops(rng, n + 4, style);
            s.set("hasmore", rng.pick(&[0i64, 0, 0, 1]));
            s.set("compute_adler", rng.chance(1, 4) as i64);
        }
    }
    // every suspension point for small schedules, a seeded one otherwise
    if s.ops.len() > 40 || n > 4000 {
        s.set("snap_at", rng.range(0, s.ops.len().max(1)) as i64);
    }
    s.set_blob("stream", vs.bytes);
    s
}

pub fn defs() -> Vec<CheckDef> {
    vec![CheckDef {
        id: "C19",
        level: "fault_enumeration",
        runs_quick: 1_000_000,
        runs_thorough: 20_000_000,
        block: 256,
        gen: gen_c19,
        exec,
        rule: "run = stream (valid, or with one channel fault) x schedule x snapshot kind {Clone of DecompressorOxide (clone(), or clone_from() into a new or a used object), rmp-serde serialise->bytes->deserialise of DecompressorOxide, Clone of InflateState (clone() / clone_from() into a new or a used-and-reset state), BlockBoundaryState + last 32 KiB copied into a new buffer}; the node is killed after call k and restarted from the snapshot - for schedules of <= 40 ops EVERY k (every inter-call suspension point / every block boundary), otherwise one seeded k; oracle = the uninterrupted run (output, final status, consumed, checksum) and, for boundary mode, the reference decoder's block list and the bit-buffer relation; non-trivial = more than one call / at least one boundary; distinct = shape fingerprint",
        shrink_cfg: &["probe"],
        shrink_blobs: false,
        assumptions: &[
            "reference inflater block list as ground truth for block boundaries",
            "rmp-serde 1.3 as the serialisation format (the one the repository's own serde test uses)",
            "x86-64 only; seeded sampling of schedules",
        ],
    }]
}
