//! `cabi` scenario (C17): the exported C functions driven in lock step with the Rust API, every buffer
//! placed against a PROT_NONE guard page, plus misuse operations. The C functions are ordinary Rust
//! `extern "C"` items of the `miniz_oxide_c_api` rlib, so no C compiler is involved. Crashes (abort,
//! SIGSEGV on a guard page) are observed by the parent process (runner.rs).

use crate::dec::apply_faults;
use crate::gen;
use crate::props_dec::{random_fault, valid_stream};
use crate::refinf::adler32_def;
use crate::rng::{Hasher, Rng};
use crate::runner::{CheckDef, RunInfo, Tier};
use crate::script::{viol, Script, Stats, Violation};
use libc::{c_int, c_ulong, c_void};
use miniz_oxide::deflate::core::{compress, compress_to_output, create_comp_flags_from_zip_params, deflate_flags, CompressorOxide, TDEFLFlush};
use miniz_oxide::deflate::stream::deflate;
use miniz_oxide::inflate::core::{decompress, DecompressorOxide};
use miniz_oxide::inflate::stream::{inflate, InflateState};
use miniz_oxide::{MZError, MZFlush, MZStatus};
use miniz_oxide_c_api as c;

const PAGE: usize = 4096;

/// Exported C symbols that the crate does not re-export as Rust items (they live in a private module and are
/// reachable only by their unmangled names, exactly as a C caller reaches them).
mod csym {
    use super::c;
    extern "C" {
        pub fn tinfl_decompressor_alloc() -> *mut c::tinfl_decompressor;
        pub fn tinfl_decompressor_free(c: *mut c::tinfl_decompressor);
        pub fn tinfl_init(c: *mut c::tinfl_decompressor);
        pub fn tinfl_get_adler32(c: *mut c::tinfl_decompressor) -> libc::c_int;
    }
}

/// A buffer whose declared range ends exactly at (End) or starts exactly after (Start) an
/// inaccessible page; the rest of the mapping is painted with a canary.
pub struct Guard {
    base: *mut u8,
    total: usize,
    pub ptr: *mut u8,
    pub len: usize,
    acc_start: usize,
    acc_len: usize,
}

const CANARY: u8 = 0xC9;

#[cfg(not(miri))]
mod guard_impl {
    use super::*;
    thread_local! {
        /// (data_pages, at_end, base address): mappings are reused, mmap/munmap per call is expensive
        static POOL: std::cell::RefCell<Vec<(usize, bool, usize)>> = std::cell::RefCell::new(Vec::new());
    }

    impl Guard {
        pub fn new(len: usize, at_end: bool) -> Guard {
            // size classes (powers of two) so that pooled mappings are actually reused
            let data_pages = ((len + PAGE - 1) / PAGE + 1).next_power_of_two();
            let total = (data_pages + 1) * PAGE;
            unsafe {
                let reused = POOL.with(|p| {
                    let mut p = p.borrow_mut();
                    p.iter().position(|e| e.0 == data_pages && e.1 == at_end).map(|i| p.swap_remove(i).2)
                });
                let (guard_off, acc_start, ptr_off) = if at_end { (data_pages * PAGE, 0, data_pages * PAGE - len) } else { (0, PAGE, PAGE) };
                let base = match reused {
                    Some(b) => b as *mut u8,
                    None => {
                        let base = libc::mmap(std::ptr::null_mut(), total, libc::PROT_READ | libc::PROT_WRITE, libc::MAP_PRIVATE | libc::MAP_ANONYMOUS, -1, 0) as *mut u8;
                        if base as isize == -1 {
                            panic!("HARNESS: mmap failed");
                        }
                        if libc::mprotect(base.add(guard_off) as *mut c_void, PAGE, libc::PROT_NONE) != 0 {
                            panic!("HARNESS: mprotect failed");
                        }
                        base
                    }
                };
                // paint only what lies outside the declared range (the range itself is caller data)
                let lo = ptr_off - acc_start;
                std::ptr::write_bytes(base.add(acc_start), CANARY, lo);
                std::ptr::write_bytes(base.add(ptr_off + len), CANARY, data_pages * PAGE - lo - len);
                Guard { base, total, ptr: base.add(ptr_off), len, acc_start, acc_len: data_pages * PAGE }
            }
        }
        pub fn with(data: &[u8], at_end: bool) -> Guard {
            let g = Guard::new(data.len(), at_end);
            unsafe { std::ptr::copy_nonoverlapping(data.as_ptr(), g.ptr, data.len()) };
            g
        }
        pub fn bytes(&self) -> &[u8] {
            unsafe { std::slice::from_raw_parts(self.ptr, self.len) }
        }
        /// every accessible byte outside [ptr, ptr+len) still holds the canary
        pub fn canary_intact(&self) -> Option<usize> {
            unsafe {
                let acc = std::slice::from_raw_parts(self.base.add(self.acc_start), self.acc_len);
                let lo = self.ptr as usize - (self.base as usize + self.acc_start);
                if let Some(i) = acc[..lo].iter().position(|&b| b != CANARY) {
                    return Some(i);
                }
                if let Some(i) = acc[lo + self.len..].iter().position(|&b| b != CANARY) {
                    return Some(lo + self.len + i);
                }
            }
            None
        }
    }

    impl Drop for Guard {
        fn drop(&mut self) {
            let data_pages = self.acc_len / PAGE;
            let at_end = self.acc_start == 0;
            let keep = data_pages <= 2048
                && POOL.with(|p| {
                    let mut p = p.borrow_mut();
                    if p.len() < 96 && p.iter().filter(|e| e.0 == data_pages && e.1 == at_end).count() < 4 {
                        p.push((data_pages, at_end, self.base as usize));
                        true
                    } else {
                        false
                    }
                });
            if !keep {
                unsafe {
                    libc::munmap(self.base as *mut c_void, self.total);
                }
            }
        }
    }

}

/// Under Miri the buffers are exact-size heap allocations: Miri itself reports any access outside them
/// (and provenance / aliasing violations that guard pages cannot see).
#[cfg(miri)]
mod guard_impl {
    use super::*;
    impl Guard {
        pub fn new(len: usize, _at_end: bool) -> Guard {
            let v = vec![CANARY; len.max(1)].into_boxed_slice();
            let total = v.len();
            let ptr = Box::into_raw(v) as *mut u8;
            Guard { base: ptr, total, ptr, len, acc_start: 0, acc_len: 0 }
        }
        pub fn with(data: &[u8], at_end: bool) -> Guard {
            let g = Guard::new(data.len(), at_end);
            unsafe { std::ptr::copy_nonoverlapping(data.as_ptr(), g.ptr, data.len()) };
            g
        }
        pub fn bytes(&self) -> &[u8] {
            unsafe { std::slice::from_raw_parts(self.ptr, self.len) }
        }
        pub fn canary_intact(&self) -> Option<usize> {
            None
        }
    }
    impl Drop for Guard {
        fn drop(&mut self) {
            unsafe {
                drop(Box::from_raw(std::slice::from_raw_parts_mut(self.base, self.total)));
            }
        }
    }
}

fn code(r: Result<MZStatus, MZError>) -> i32 {
    match r {
        Ok(s) => s as i32,
        Err(e) => e as i32,
    }
}

struct Acct {
    next_in: usize,
    avail_in: u32,
    total_in: c_ulong,
    next_out: usize,
    avail_out: u32,
    total_out: c_ulong,
}

fn snap(s: &c::mz_stream) -> Acct {
    Acct { next_in: s.next_in as usize, avail_in: s.avail_in, total_in: s.total_in, next_out: s.next_out as usize, avail_out: s.avail_out, total_out: s.total_out }
}

/// Accounting invariants around one stream call; returns (consumed, written).
fn accounting(b: &Acct, s: &c::mz_stream, what: &str, k: usize) -> Result<(usize, usize), Violation> {
    let a = snap(s);
    let din = a.next_in.wrapping_sub(b.next_in);
    let dout = a.next_out.wrapping_sub(b.next_out);
    let ok_in = din <= b.avail_in as usize && (b.avail_in - a.avail_in.min(b.avail_in)) as usize == din && a.avail_in <= b.avail_in && a.total_in.wrapping_sub(b.total_in) as usize == din;
    let ok_out = dout <= b.avail_out as usize && (b.avail_out - a.avail_out.min(b.avail_out)) as usize == dout && a.avail_out <= b.avail_out && a.total_out.wrapping_sub(b.total_out) as usize == dout;
    if !ok_in {
        return viol("C17.accounting_in", format!("{} call {}: next_in advanced {} (avail_in {} -> {}, total_in {} -> {})", what, k, din as isize, b.avail_in, a.avail_in, b.total_in, a.total_in));
    }
    if !ok_out {
        return viol("C17.accounting_out", format!("{} call {}: next_out advanced {} (avail_out {} -> {}, total_out {} -> {})", what, k, dout as isize, b.avail_out, a.avail_out, b.total_out, a.total_out));
    }
    Ok((din, dout))
}

fn canaries(gin: &Guard, gout: &Guard, what: &str, k: usize) -> Result<(), Violation> {
    if let Some(i) = gout.canary_intact() {
        return viol("C17.writes_inside_output_range", format!("{} call {}: byte at mapping offset {} outside the declared output range was modified", what, k, i));
    }
    if let Some(i) = gin.canary_intact() {
        return viol("C17.input_not_written", format!("{} call {}: byte at mapping offset {} next to the input range was modified", what, k, i));
    }
    Ok(())
}

// ------------------------------------------------------------------------------------------------
// family 0: mz_deflate in lock step with deflate()
// ------------------------------------------------------------------------------------------------

fn fam_deflate(s: &Script, st: &mut Stats) -> Result<RunInfo, Violation> {
    let plain = s.blob("plain");
    let level = s.c("level") as c_int;
    let wb = if s.c("zlib") != 0 { 15 } else { -15 };
    let strategy = s.c("strategy") as c_int;
    let mem_level = s.c_or("mem_level", 9) as c_int;
    let mut h = Hasher::new();
    unsafe {
        let mut strm = c::mz_stream::default();
        let rc = if s.c("init1") != 0 && wb == 15 && strategy == 0 && mem_level == 9 { c::mz_deflateInit(&mut strm, level) } else { c::mz_deflateInit2(&mut strm, level, 8, wb, mem_level, strategy) };
        if rc != 0 {
            return viol("C17.init_ok", format!("mz_deflateInit2(level {}, window_bits {}, mem_level {}, strategy {}) = {}", level, wb, mem_level, strategy, rc));
        }
        // a caller may keep totals of its own in the struct; accounting is about differences
        let bias = s.c("total_bias") as c_ulong;
        if bias != 0 {
            strm.total_in = (1u64 << 32) as c_ulong - bias;
            strm.total_out = (1u64 << 32) as c_ulong - bias / 2;
        }
        let mk = || CompressorOxide::new(deflate_flags::TDEFL_COMPUTE_ADLER32 | create_comp_flags_from_zip_params(level, wb, strategy));
        let mut comp = mk();
        let n = plain.len();
        let (mut delivered, mut pos) = (0usize, 0usize);
        let mut base = 0usize; // input offset at the last reset
        let mut rout: Vec<u8> = Vec::new();
        let mut ended = false;
        let mut k = 0usize;
        let mut tail = 0usize;
        let mut opi = 0usize;
        loop {
            let (chunk, ol, fl, special) = if opi < s.ops.len() {
                let o = &s.ops[opi];
                (o[0].max(0) as usize, o[1].max(0) as usize, o[2] as c_int, o.get(3).copied().unwrap_or(0))
            } else {
                if ended {
                    break;
                }
                tail += 1;
                if tail > n + 200 {
                    return viol("C17.liveness", "mz_deflate(MZ_FINISH) loop did not end".into());
                }
                (n, 4096, 4, 0)
            };
            opi += 1;
            k += 1;
            if special == 1 {
                // mz_deflateReset in the middle: afterwards the stream behaves like a fresh one (C18)
                if cfg!(miri) {
                    // as before *End (below): the shim builds slice views of next_in/next_out that it never
                    // uses, and the buffers of the previous call are already freed in the Miri build
                    strm.next_in = std::ptr::null();
                    strm.avail_in = 0;
                    strm.next_out = std::ptr::null_mut();
                    strm.avail_out = 0;
                }
                let rc = c::mz_deflateReset(&mut strm);
                if rc != 0 {
                    return viol("C17.reset_ok", format!("mz_deflateReset = {}", rc));
                }
                if strm.total_in != 0 || strm.total_out != 0 {
                    return viol("C17.reset_totals", format!("after mz_deflateReset total_in {} total_out {}", strm.total_in, strm.total_out));
                }
                comp = mk();
                // abandon what was pending; restart from the current delivery point
                pos = delivered;
                base = delivered;
                ended = false;
                st.inc("fault.abandon_reset");
            }
            delivered = (delivered + chunk).min(n);
            let inb = &plain[pos..delivered];
            let gin = Guard::with(inb, k % 2 == 0);
            let gout = Guard::new(ol, k % 3 != 0);
            strm.next_in = gin.ptr;
            strm.avail_in = inb.len() as u32;
            strm.next_out = gout.ptr;
            strm.avail_out = ol as u32;
            let before = snap(&strm);
            let rc = c::mz_deflate(&mut strm, fl);
            st.inc("calls");
            st.inc("steps");
            let (din, dout) = accounting(&before, &strm, "mz_deflate", k)?;
            canaries(&gin, &gout, "mz_deflate", k)?;
            // the corresponding Rust call
            let (exp_rc, exp_in, exp_out) = match MZFlush::new(fl) {
                Err(e) => (e as i32, 0usize, 0usize),
                Ok(f) => {
                    rout.resize(ol, 0);
                    let r = deflate(&mut comp, inb, &mut rout[..ol], f);
                    (code(r.status), r.bytes_consumed, r.bytes_written)
                }
            };
            h.u(rc as u64);
            h.u(din as u64);
            h.u(dout as u64);
            // a flush value outside the enum has no corresponding Rust call: the misuse clause asks for an error
            // code (whichever) and no progress
            let bad_flush = MZFlush::new(fl).is_err();
            if bad_flush {
                if rc >= 0 || din != 0 || dout != 0 {
                    return viol("C17.misuse_returns_error_code", format!("mz_deflate call {} with flush {}: rc {} consumed {} written {}", k, fl, rc, din, dout));
                }
            } else if rc != exp_rc || din != exp_in || dout != exp_out {
                return viol("C17.same_as_rust", format!("mz_deflate call {} (avail_in {}, avail_out {}, flush {}): rc {} consumed {} written {}; deflate() gives {} / {} / {}", k, inb.len(), ol, fl, rc, din, dout, exp_rc, exp_in, exp_out));
            }
            if gout.bytes()[..dout] != rout[..dout] {
                return viol("C17.same_bytes_as_rust", format!("mz_deflate call {}: output bytes differ from deflate()", k));
            }
            pos += din;
            if exp_rc >= 0 || exp_rc == MZError::Buf as i32 {
                let want = adler32_def(1, &plain[base..pos]);
                if MZFlush::new(fl).is_ok() && strm.adler as u32 != want {
                    return viol("C16.c_stream_adler", format!("after mz_deflate call {}: stream.adler = {:#010x}, Adler-32 of the {} bytes consumed = {:#010x}", k, strm.adler, pos - base, want));
                }
            }
            if rc == MZStatus::StreamEnd as i32 {
                ended = true;
            }
            if rc < 0 && rc != MZError::Buf as i32 && opi > s.ops.len() {
                break;
            }
        }
        if cfg!(miri) {
            // The shim builds &[u8] views of next_in/next_out in every entry point, also in *End, which
            // never uses them. With the caller's buffers already freed that is a dangling reference for
            // Miri although no byte is accessed (observation in DESIGN.md 12.4); the Miri complement is
            // about accesses, so the pointers are cleared here.
            strm.next_in = std::ptr::null();
            strm.avail_in = 0;
            strm.next_out = std::ptr::null_mut();
            strm.avail_out = 0;
        }
        let rc = c::mz_deflateEnd(&mut strm);
        if rc != 0 {
            return viol("C17.end_ok", format!("mz_deflateEnd = {}", rc));
        }
        // a stream that has been ended returns an error code
        let g = Guard::new(16, true);
        strm.next_in = g.ptr;
        strm.avail_in = 0;
        strm.next_out = g.ptr;
        strm.avail_out = 16;
        let rc = c::mz_deflate(&mut strm, 0);
        if rc >= 0 {
            return viol("C17.ended_stream_is_error", format!("mz_deflate on an ended stream = {}", rc));
        }
    }
    Ok(RunInfo { hash: h.0, nontrivial: s.ops.len() > 1 })
}

// ------------------------------------------------------------------------------------------------
// family 1: mz_inflate in lock step with inflate()
// ------------------------------------------------------------------------------------------------

fn fam_inflate(s: &Script, st: &mut Stats) -> Result<RunInfo, Violation> {
    let m = apply_faults(s.blob("stream"), &s.faults, st);
    let wb: c_int = if s.c("zlib") != 0 { 15 } else { -15 };
    let mut h = Hasher::new();
    unsafe {
        let mut strm = c::mz_stream::default();
        let rc = if wb == 15 && s.c("init1") != 0 { c::mz_inflateInit(&mut strm) } else { c::mz_inflateInit2(&mut strm, wb) };
        if rc != 0 {
            return viol("C17.init_ok", format!("mz_inflateInit2({}) = {}", wb, rc));
        }
        let bias = s.c("total_bias") as c_ulong;
        let (base_in, base_out) = if bias != 0 { ((1u64 << 32) as c_ulong - bias, (1u64 << 32) as c_ulong - bias / 2) } else { (0, 0) };
        strm.total_in = base_in;
        strm.total_out = base_out;
        let mut state = InflateState::new_boxed_with_window_bits(wb);
        let n = m.len();
        let (mut delivered, mut pos) = (0usize, 0usize);
        let mut rout: Vec<u8> = Vec::new();
        let mut k = 0usize;
        let mut tail = 0usize;
        let mut opi = 0usize;
        let mut produced: Vec<u8> = Vec::new();
        let mut last_rc = 0i32;
        loop {
            let (chunk, ol, fl) = if opi < s.ops.len() {
                let o = &s.ops[opi];
                (o[0].max(0) as usize, o[1].max(0) as usize, o[2] as c_int)
            } else {
                tail += 1;
                if tail > n + produced.len() / 64 + 300 {
                    return viol("C17.liveness", "mz_inflate loop did not end".into());
                }
                (n, 4096, 0)
            };
            opi += 1;
            k += 1;
            delivered = (delivered + chunk).min(n);
            let inb = &m[pos..delivered];
            let gin = Guard::with(inb, k % 2 == 0);
            let gout = Guard::new(ol, k % 3 != 0);
            strm.next_in = gin.ptr;
            strm.avail_in = inb.len() as u32;
            strm.next_out = gout.ptr;
            strm.avail_out = ol as u32;
            let before = snap(&strm);
            let rc = c::mz_inflate(&mut strm, fl);
            st.inc("calls");
            st.inc("steps");
            let (din, dout) = accounting(&before, &strm, "mz_inflate", k)?;
            canaries(&gin, &gout, "mz_inflate", k)?;
            let (exp_rc, exp_in, exp_out, exp_adler) = match MZFlush::new(fl) {
                Err(e) => (e as i32, 0usize, 0usize, None),
                Ok(f) => {
                    rout.resize(ol, 0);
                    let r = inflate(&mut state, inb, &mut rout[..ol], f);
                    (code(r.status), r.bytes_consumed, r.bytes_written, Some(state.decompressor().adler32().unwrap_or(0)))
                }
            };
            h.u(rc as u64);
            h.u(din as u64);
            h.u(dout as u64);
            let bad_flush = MZFlush::new(fl).is_err();
            if bad_flush {
                if rc >= 0 || din != 0 || dout != 0 {
                    return viol("C17.misuse_returns_error_code", format!("mz_inflate call {} with flush {}: rc {} consumed {} written {}", k, fl, rc, din, dout));
                }
            } else if rc != exp_rc || din != exp_in || dout != exp_out {
                return viol("C17.same_as_rust", format!("mz_inflate call {} (avail_in {}, avail_out {}, flush {}): rc {} consumed {} written {}; inflate() gives {} / {} / {}", k, inb.len(), ol, fl, rc, din, dout, exp_rc, exp_in, exp_out));
            }
            if gout.bytes()[..dout] != rout[..dout] {
                return viol("C17.same_bytes_as_rust", format!("mz_inflate call {}: output bytes differ from inflate()", k));
            }
            produced.extend_from_slice(&rout[..dout]);
            if let Some(a) = exp_adler {
                if strm.adler as u32 != a {
                    return viol("C16.c_stream_adler_matches_decoder", format!("mz_inflate call {}: stream.adler {:#x}, DecompressorOxide::adler32() of the lock-step Rust decoder {:#x}", k, strm.adler, a));
                }
                // The field covers everything DECODED so far; bytes still waiting in the 32 KiB window are
                // included. Compare only when nothing can be pending (output space was left over).
                if wb == 15 && rc >= 0 && a != 0 && dout < ol {
                    let want = adler32_def(1, &produced);
                    if a != want {
                        return viol("C16.c_stream_adler", format!("after mz_inflate call {}: stream.adler = {:#010x}, Adler-32 of the {} bytes produced = {:#010x}", k, a, produced.len(), want));
                    }
                }
            }
            pos += din;
            last_rc = rc;
            let progressed = din > 0 || dout > 0;
            if rc == MZStatus::StreamEnd as i32 && opi >= s.ops.len() {
                break;
            }
            if rc < 0 && opi > s.ops.len() && !(rc == MZError::Buf as i32 && progressed) {
                break;
            }
        }
        let ended = (strm.total_out - base_out) as usize == produced.len() && last_rc == MZStatus::StreamEnd as i32;
        if s.c("enc_len") > 0 {
            // C06 through the C entry point: total_in / next_in stop exactly at the end of the stream
            if !ended {
                return viol("C06.completes", format!("[mz_inflate] valid stream + trailing bytes ended with rc {}", last_rc));
            }
            if (strm.total_in - base_in) as usize != s.c("enc_len") as usize || pos != s.c("enc_len") as usize {
                return viol("C06.consumed_exact", format!("[mz_inflate] stream of {} bytes followed by {} trailing bytes: total_in = {}", s.c("enc_len"), n - s.c("enc_len") as usize, strm.total_in));
            }
        }
        if s.c("expect_valid") != 0 {
            let v = crate::refinf::inflate(&m, &crate::refinf::Opts::flat(wb == 15));
            if !ended || produced != v.out {
                return viol("C03.valid_stream_finishes", format!("[mz_inflate] valid stream ended with rc {} after {} of {} bytes", last_rc, produced.len(), v.out.len()));
            }
        }
        if cfg!(miri) {
            strm.next_in = std::ptr::null();
            strm.avail_in = 0;
            strm.next_out = std::ptr::null_mut();
            strm.avail_out = 0;
        }
        let rc = c::mz_inflateEnd(&mut strm);
        if rc != 0 {
            return viol("C17.end_ok", format!("mz_inflateEnd = {}", rc));
        }
    }
    Ok(RunInfo { hash: h.0, nontrivial: s.ops.len() > 1 || !s.faults.is_empty() })
}

// ------------------------------------------------------------------------------------------------
// family 2: one-shot mz_compress2 / mz_uncompress
// ------------------------------------------------------------------------------------------------

fn fam_oneshot(s: &Script, st: &mut Stats) -> Result<RunInfo, Violation> {
    let plain = s.blob("plain");
    let level = s.c("level") as c_int;
    let n = plain.len();
    let mut h = Hasher::new();
    unsafe {
        let bound = c::mz_compressBound(n as c_ulong) as usize;
        let dest_cap = match s.c("dest_mode") {
            0 => bound,
            1 => bound + 77,
            2 => (s.c("dest_arg").max(0) as usize).min(bound),
            _ => 0,
        };
        let gin = Guard::with(plain, s.c("flip") != 0);
        let gout = Guard::new(dest_cap, s.c("flip") == 0);
        let mut dest_len = dest_cap as c_ulong;
        let rc = if s.c("use_compress1") != 0 && level == -1 { c::mz_compress(gout.ptr, &mut dest_len, gin.ptr, n as c_ulong) } else { c::mz_compress2(gout.ptr, &mut dest_len, gin.ptr, n as c_ulong, level) };
        st.inc("calls");
        st.inc("steps");
        canaries(&gin, &gout, "mz_compress2", 1)?;
        // corresponding Rust calls
        let mut comp = CompressorOxide::new(deflate_flags::TDEFL_COMPUTE_ADLER32 | create_comp_flags_from_zip_params(level, 15, 0));
        let mut rout = vec![0u8; dest_cap];
        let r = deflate(&mut comp, plain, &mut rout, MZFlush::Finish);
        let exp = match r.status {
            Ok(MZStatus::StreamEnd) => 0,
            Ok(MZStatus::Ok) => MZError::Buf as i32,
            other => code(other),
        };
        if rc != exp {
            return viol("C17.same_as_rust", format!("mz_compress2(dest {} bytes, src {} bytes, level {}) = {}, the Rust sequence gives {}", dest_cap, n, level, rc, exp));
        }
        h.u(rc as u64);
        if rc == 0 {
            if dest_len as usize != r.bytes_written || gout.bytes()[..r.bytes_written] != rout[..r.bytes_written] {
                return viol("C17.same_bytes_as_rust", format!("mz_compress2: dest_len {} vs {} or bytes differ", dest_len, r.bytes_written));
            }
            // and back through mz_uncompress with several destination sizes
            let comp_bytes = gout.bytes()[..dest_len as usize].to_vec();
            let src = if s.c("corrupt") != 0 && !comp_bytes.is_empty() {
                let mut c2 = comp_bytes.clone();
                let i = (s.c("corrupt") as usize) % c2.len();
                c2[i] ^= 0x10;
                c2
            } else {
                comp_bytes
            };
            let ucap = match s.c("udest_mode") {
                0 => n,
                1 => n + 1,
                2 => n.saturating_sub(1),
                _ => n / 2,
            };
            let gsrc = Guard::with(&src, s.c("flip") == 0);
            let gdst = Guard::new(ucap, s.c("flip") != 0);
            let mut ulen = ucap as c_ulong;
            let rc2 = c::mz_uncompress(gdst.ptr, &mut ulen, gsrc.ptr, src.len() as c_ulong);
            st.inc("calls");
            canaries(&gsrc, &gdst, "mz_uncompress", 2)?;
            let mut stt = InflateState::new_boxed_with_window_bits(15);
            let mut ro = vec![0u8; ucap];
            let rr = inflate(&mut stt, &src, &mut ro, MZFlush::Finish);
            let empty_in = rr.bytes_consumed == src.len();
            let exp2 = match (rr.status, empty_in) {
                (Ok(MZStatus::StreamEnd), _) => 0,
                (Err(MZError::Buf), true) => MZError::Data as i32,
                (st_, _) => code(st_),
            };
            if rc2 != exp2 {
                return viol("C17.same_as_rust", format!("mz_uncompress(dest {} bytes, src {} bytes) = {}, the Rust sequence gives {}", ucap, src.len(), rc2, exp2));
            }
            // (a stream with one flipped bit may legitimately decode to other bytes with the same Adler-32 - about
            // one in 10^7 short inputs does; what C17 states is that C and Rust agree, so the plaintext is compared
            // only when the stream was not damaged)
            if rc2 == 0 && s.c("corrupt") != 0 && ro[..rr.bytes_written] != plain[..] {
                st.inc("probe.damaged_stream_with_colliding_checksum");
            }
            if rc2 == 0 && (ulen as usize != rr.bytes_written || gdst.bytes()[..rr.bytes_written] != ro[..rr.bytes_written] || (s.c("corrupt") == 0 && ro[..rr.bytes_written] != plain[..])) {
                return viol("C17.same_bytes_as_rust", format!("mz_uncompress output differs: dest_len {} vs Rust {} (plaintext {}), C bytes equal Rust bytes: {}, Rust bytes equal plaintext: {}", ulen, rr.bytes_written, n, gdst.bytes()[..rr.bytes_written.min(ulen as usize)] == ro[..rr.bytes_written.min(ulen as usize)], ro[..rr.bytes_written] == plain[..]));
            }
            h.u(rc2 as u64);
        }
    }
    Ok(RunInfo { hash: h.0, nontrivial: true })
}

// ------------------------------------------------------------------------------------------------
// family 3/4: tdefl_*
// ------------------------------------------------------------------------------------------------

unsafe extern "C" fn collect_cb(buf: *const c_void, len: c_int, user: *mut c_void) -> i32 {
    let v = &mut *(user as *mut (Vec<u8>, i64, i64));
    v.2 += 1;
    if v.1 != 0 && v.2 == v.1 {
        return 0;
    }
    v.0.extend_from_slice(std::slice::from_raw_parts(buf as *const u8, len as usize));
    1
}

fn fam_tdefl(s: &Script, st: &mut Stats) -> Result<RunInfo, Violation> {
    let plain = s.blob("plain");
    let flags = s.c("tdefl_flags") as u32;
    let use_cb = s.c("callback") != 0;
    let n = plain.len();
    let mut h = Hasher::new();
    unsafe {
        let cp = c::tdefl_allocate();
        if cp.is_null() {
            return viol("C17.allocate", "tdefl_allocate returned NULL".into());
        }
        let mut sinkc: (Vec<u8>, i64, i64) = (Vec::new(), s.c("putfail"), 0);
        let user = &mut sinkc as *mut (Vec<u8>, i64, i64) as *mut c_void;
        if s.c("reinit") != 0 {
            // the object has been initialised before, with the other kind of sink (and the same or other flags)
            let rc0 = c::tdefl_init(cp.as_mut(), if use_cb { None } else { Some(collect_cb) }, user, (if n % 2 == 0 { flags } else { flags ^ 0x3 }) as c_int) as i32;
            if rc0 != 0 {
                c::tdefl_deallocate(cp);
                return viol("C17.init_ok", format!("first tdefl_init = {}", rc0));
            }
            st.inc("probe.tdefl_reinit");
        }
        let rc = c::tdefl_init(cp.as_mut(), if use_cb { Some(collect_cb) } else { None }, user, flags as c_int) as i32;
        if rc != 0 {
            c::tdefl_deallocate(cp);
            return viol("C17.init_ok", format!("tdefl_init = {}", rc));
        }
        let mut comp = CompressorOxide::new(flags);
        let mut sinkr: Vec<u8> = Vec::new();
        let mut cbr = 0i64;
        let (mut delivered, mut pos) = (0usize, 0usize);
        let mut rout: Vec<u8> = Vec::new();
        let mut finishing = false;
        let mut done = false;
        let mut k = 0usize;
        let mut tail = 0usize;
        let mut opi = 0usize;
        while !done {
            let (chunk, ol, mut fl) = if opi < s.ops.len() {
                let o = &s.ops[opi];
                (o[0].max(0) as usize, o[1].max(0) as usize, o[2])
            } else {
                tail += 1;
                if tail > n + 200 {
                    c::tdefl_deallocate(cp);
                    return viol("C17.liveness", "tdefl_compress(TDEFL_FINISH) loop did not end".into());
                }
                (n, 4096, 4)
            };
            opi += 1;
            k += 1;
            if finishing {
                fl = 4;
            }
            // the C enum only has these four values
            let fl = match fl {
                2 | 3 | 4 => fl,
                _ => 0,
            };
            if fl == 4 {
                finishing = true;
            }
            delivered = (delivered + chunk).min(n);
            let inb = &plain[pos..delivered];
            let gin = Guard::with(inb, k % 2 == 0);
            let gout = Guard::new(if use_cb { 0 } else { ol }, k % 3 != 0);
            let mut in_size = inb.len();
            let mut out_size = if use_cb { 0 } else { ol };
            let out_ptr = if use_cb { std::ptr::null_mut() } else { gout.ptr as *mut c_void };
            // with a callback sink the C API also offers tdefl_compress_buffer (no size pointers: the whole input is
            // taken or the call fails)
            let via_buffer_fn = use_cb && s.c("buffer_fn") != 0;
            let rc = if via_buffer_fn {
                let r = c::tdefl_compress_buffer(cp.as_mut(), gin.ptr as *const c_void, in_size, std::mem::transmute(fl as i32)) as i32;
                st.inc("probe.tdefl_compress_buffer_calls");
                r
            } else {
                c::tdefl_compress(cp.as_mut(), gin.ptr as *const c_void, Some(&mut in_size), out_ptr, Some(&mut out_size), std::mem::transmute(fl as i32)) as i32
            };
            st.inc("calls");
            st.inc("steps");
            canaries(&gin, &gout, "tdefl_compress", k)?;
            let tf = match fl {
                2 => TDEFLFlush::Sync,
                3 => TDEFLFlush::Full,
                4 => TDEFLFlush::Finish,
                _ => TDEFLFlush::None,
            };
            let (es, ei, eo) = if use_cb {
                let putfail = s.c("putfail");
                let (a, b) = compress_to_output(&mut comp, inb, tf, |b: &[u8]| {
                    cbr += 1;
                    if putfail != 0 && cbr == putfail {
                        return false;
                    }
                    sinkr.extend_from_slice(b);
                    true
                });
                (a as i32, b, 0usize)
            } else {
                rout.resize(ol, 0);
                let (a, b, c_) = compress(&mut comp, inb, &mut rout[..ol], tf);
                (a as i32, b, c_)
            };
            h.u(rc as u64);
            h.u(in_size as u64);
            h.u(out_size as u64);
            if via_buffer_fn {
                // the function reports no counts; the Rust call tells what was taken
                in_size = ei;
                out_size = eo;
            }
            if rc != es || in_size != ei || out_size != eo {
                c::tdefl_deallocate(cp);
                return viol("C17.same_as_rust", format!("tdefl_compress call {} (in {}, out {}, flush {}, callback {}): status {} in_size {} out_size {}; Rust gives {} / {} / {}", k, inb.len(), ol, fl, use_cb, rc, in_size, out_size, es, ei, eo));
            }
            if in_size > inb.len() || (!use_cb && out_size > ol) {
                c::tdefl_deallocate(cp);
                return viol("C17.accounting_in", format!("tdefl_compress call {}: in_size {} of {}, out_size {} of {}", k, in_size, inb.len(), out_size, ol));
            }
            if !use_cb && gout.bytes()[..out_size] != rout[..out_size] {
                c::tdefl_deallocate(cp);
                return viol("C17.same_bytes_as_rust", format!("tdefl_compress call {}: bytes differ", k));
            }
            if use_cb && sinkc.0 != sinkr {
                c::tdefl_deallocate(cp);
                return viol("C17.same_bytes_as_rust", format!("tdefl_compress call {}: callback bytes differ", k));
            }
            let ca = c::tdefl_get_adler32(cp.as_mut());
            if ca != comp.adler32() {
                c::tdefl_deallocate(cp);
                return viol("C17.adler_field_same_as_rust", format!("tdefl_get_adler32 {:#x} vs {:#x}", ca, comp.adler32()));
            }
            let ps = c::tdefl_get_prev_return_status(cp.as_mut()) as i32;
            if ps != comp.prev_return_status() as i32 {
                c::tdefl_deallocate(cp);
                return viol("C17.same_as_rust", format!("tdefl_get_prev_return_status {} vs {}", ps, comp.prev_return_status() as i32));
            }
            pos += in_size;
            if rc == 1 || rc < 0 {
                done = true;
            }
        }
        c::tdefl_deallocate(cp);
        // flag construction from zlib-style parameters
        {
            let mut x = flags as u64 ^ (n as u64).wrapping_mul(0x9E37_79B9_7F4A_7C15);
            for _ in 0..4 {
                x ^= x << 13;
                x ^= x >> 7;
                x ^= x << 17;
                let level = (x % 14) as c_int - 2;
                let wbits = [15, -15, 8, -8, 0, 9, 12, 14, -12, 16][(x >> 8) as usize % 10] as c_int;
                let strat = ((x >> 16) % 7) as c_int - 1;
                let cf = c::tdefl_create_comp_flags_from_zip_params(level, wbits, strat);
                let rf = create_comp_flags_from_zip_params(level, wbits, strat);
                if cf != rf {
                    return viol("C17.same_as_rust", format!("tdefl_create_comp_flags_from_zip_params({}, {}, {}) = {:#x}, Rust gives {:#x}", level, wbits, strat, cf, rf));
                }
            }
        }
        // one-shot helpers on the same input
        if s.c("heap") != 0 {
            let gin = Guard::with(plain, true);
            let mut out_len = 0usize;
            let p = c::tdefl_compress_mem_to_heap(gin.ptr as *const c_void, n, &mut out_len, flags as c_int);
            st.inc("calls");
            let mut ref_out: Vec<u8> = Vec::new();
            let mut c2 = CompressorOxide::new(flags);
            let (rs, _) = compress_to_output(&mut c2, plain, TDEFLFlush::Finish, |b: &[u8]| {
                ref_out.extend_from_slice(b);
                true
            });
            if p.is_null() {
                return viol("C17.same_as_rust", format!("tdefl_compress_mem_to_heap returned NULL, Rust status {:?}", rs));
            }
            let got = std::slice::from_raw_parts(p as *const u8, out_len).to_vec();
            c::miniz_def_free_func(std::ptr::null_mut(), p);
            if got != ref_out {
                return viol("C17.same_bytes_as_rust", format!("tdefl_compress_mem_to_heap: {} bytes vs {} from the Rust API", got.len(), ref_out.len()));
            }
            // mem_to_mem with exact / too small / roomy destinations
            for cap in [ref_out.len(), ref_out.len().saturating_sub(1), ref_out.len() + 19, 0] {
                let gdst = Guard::new(cap, cap % 2 == 0);
                let r = c::tdefl_compress_mem_to_mem(gdst.ptr as *mut c_void, cap, gin.ptr as *const c_void, n, flags as c_int);
                st.inc("calls");
                if let Some(i) = gdst.canary_intact() {
                    return viol("C17.writes_inside_output_range", format!("tdefl_compress_mem_to_mem(cap {}): byte at mapping offset {} outside the destination modified", cap, i));
                }
                let exp = if cap >= ref_out.len() && !ref_out.is_empty() { ref_out.len() } else { 0 };
                if r != exp {
                    return viol("C17.same_as_rust", format!("tdefl_compress_mem_to_mem(cap {}, needs {}) = {}", cap, ref_out.len(), r));
                }
                if r != 0 && gdst.bytes()[..r] != ref_out[..] {
                    return viol("C17.same_bytes_as_rust", "tdefl_compress_mem_to_mem bytes differ".into());
                }
            }
        }
    }
    Ok(RunInfo { hash: h.0, nontrivial: s.ops.len() > 1 })
}

// ------------------------------------------------------------------------------------------------
// family 5: tinfl_*
// ------------------------------------------------------------------------------------------------

fn fam_tinfl(s: &Script, st: &mut Stats) -> Result<RunInfo, Violation> {
    let m = apply_faults(s.blob("stream"), &s.faults, st);
    let zlib = s.c("zlib") != 0;
    let ring = s.c("mode") == 1;
    let cap = if ring { 1usize << s.c_or("ring_bits", 15) } else { s.c_or("flat_cap", 4096).max(0) as usize };
    let base_flags: u32 = (if zlib { 1 } else { 0 }) | (if ring { 0 } else { 4 });
    let mut h = Hasher::new();
    unsafe {
        // the decompressor object: a stack value, or one obtained from tinfl_decompressor_alloc(); optionally it
        // has decoded something else before and was re-initialised with tinfl_init()
        let heap_obj = s.c("heap_obj") != 0;
        let mut local = c::tinfl_decompressor::default();
        struct Owned(*mut c::tinfl_decompressor);
        impl Drop for Owned {
            fn drop(&mut self) {
                if !self.0.is_null() {
                    unsafe { csym::tinfl_decompressor_free(self.0) }
                }
            }
        }
        let owned = Owned(if heap_obj { csym::tinfl_decompressor_alloc() } else { std::ptr::null_mut() });
        if heap_obj && owned.0.is_null() {
            return viol("C17.allocate", "tinfl_decompressor_alloc returned NULL".into());
        }
        let cr: *mut c::tinfl_decompressor = if heap_obj { owned.0 } else { &mut local };
        if s.c("tinfl_reuse") != 0 {
            // an unrelated earlier use of the same object
            let junk = [0x78u8, 0x9c, 0xed, 0xbd, 0x07, 0x60, 0x1c, 0x49, 0x96, 0x25];
            let mut jin = (s.c("tinfl_reuse") as usize).min(junk.len());
            let mut jout = 64usize;
            let mut jb = [0u8; 64];
            let _ = c::tinfl_decompress(cr, junk.as_ptr(), &mut jin, jb.as_mut_ptr(), jb.as_mut_ptr(), &mut jout, 4 | 2 | 1);
            csym::tinfl_init(cr);
            st.inc("probe.tinfl_init_after_use");
        } else if heap_obj || s.c("tinfl_init") != 0 {
            csym::tinfl_init(cr);
        }
        let mut rr = DecompressorOxide::new();
        // output buffer of the C side lives against a guard page; Rust side is a plain Vec
        let gout = Guard::new(cap, true);
        std::ptr::write_bytes(gout.ptr, 0x3C, cap);
        let mut rout = vec![0x3Cu8; cap];
        let n = m.len();
        let (mut delivered, mut pos, mut out_pos) = (0usize, 0usize, 0usize);
        let mut k = 0usize;
        let mut tail = 0usize;
        let mut opi = 0usize;
        let mut last_status = 1i32;
        let mut collected: Vec<u8> = Vec::new();
        loop {
            let (chunk, window) = if opi < s.ops.len() {
                (s.ops[opi][0].max(0) as usize, s.ops[opi][1])
            } else {
                tail += 1;
                if tail > n + 4000 {
                    return viol("C17.liveness", "tinfl_decompress loop did not end".into());
                }
                (n, -1)
            };
            opi += 1;
            k += 1;
            delivered = (delivered + chunk).min(n);
            let inb = &m[pos..delivered];
            let flags = base_flags | if delivered < n { 2 } else { 0 };
            let avail = cap - out_pos;
            let win = if ring || window < 0 { avail } else { (window as usize).min(avail) };
            let gin = Guard::with(inb, k % 2 == 0);
            let mut in_size = inb.len();
            let mut out_size = win;
            // the C function may touch [out_start, out_next + out_size): place that end against the guard by
            // using a second guarded copy when the window is smaller than the rest of the buffer
            let gwin = Guard::new(out_pos + win, true);
            std::ptr::copy_nonoverlapping(gout.ptr, gwin.ptr, out_pos + win);
            let rc = c::tinfl_decompress(cr, gin.ptr, &mut in_size, gwin.ptr, gwin.ptr.add(out_pos), &mut out_size, flags);
            st.inc("calls");
            st.inc("steps");
            if let Some(i) = gwin.canary_intact() {
                return viol("C17.writes_inside_output_range", format!("tinfl_decompress call {}: byte at mapping offset {} outside [out_start, out_next + size) modified", k, i));
            }
            if let Some(i) = gin.canary_intact() {
                return viol("C17.input_not_written", format!("tinfl_decompress call {}: byte at mapping offset {} next to the input modified", k, i));
            }
            std::ptr::copy_nonoverlapping(gwin.ptr, gout.ptr, out_pos + win);
            let (es, ei, eo) = decompress(&mut rr, inb, &mut rout[..out_pos + win], out_pos, flags);
            h.u(rc as u64);
            h.u(in_size as u64);
            h.u(out_size as u64);
            if rc != es as i32 || in_size != ei || out_size != eo {
                return viol("C17.same_as_rust", format!("tinfl_decompress call {} (in {}, out_pos {}, window {}, flags {:#x}): status {} in {} out {}; decompress() gives {} / {} / {}", k, inb.len(), out_pos, win, flags, rc, in_size, out_size, es as i32, ei, eo));
            }
            if in_size > inb.len() || out_size > win {
                return viol("C17.accounting_in", format!("tinfl_decompress call {}: in {} of {}, out {} of {}", k, in_size, inb.len(), out_size, win));
            }
            if gout.bytes()[..out_pos + win] != rout[..out_pos + win] {
                return viol("C17.same_bytes_as_rust", format!("tinfl_decompress call {}: buffer contents differ from decompress()", k));
            }
            let ca = csym::tinfl_get_adler32(cr) as u32;
            if ca != rr.adler32().unwrap_or(0) {
                return viol("C17.adler_field_same_as_rust", format!("tinfl_get_adler32 after call {}: {:#x}, DecompressorOxide::adler32() of the lock-step decoder: {:?}", k, ca, rr.adler32()));
            }
            pos += in_size;
            collected.extend_from_slice(&rout[out_pos..out_pos + out_size]);
            out_pos += out_size;
            if ring && out_pos == cap {
                out_pos = 0;
            }
            last_status = rc;
            use miniz_oxide::inflate::TINFLStatus as T;
            match es {
                T::NeedsMoreInput => {
                    if delivered == n && opi >= s.ops.len() {
                        break;
                    }
                }
                T::HasMoreOutput => {
                    if !ring && out_pos >= cap {
                        break;
                    }
                }
                _ => break,
            }
        }
        if s.c("enc_len") > 0 {
            if last_status != 0 {
                return viol("C06.completes", format!("[tinfl_decompress] valid stream + trailing bytes ended with status {}", last_status));
            }
            if pos != s.c("enc_len") as usize {
                return viol("C06.consumed_exact", format!("[tinfl_decompress] stream of {} bytes followed by {} trailing bytes: {} bytes reported consumed through *in_buf_size", s.c("enc_len"), n - s.c("enc_len") as usize, pos));
            }
        }
        if s.c("expect_valid") != 0 {
            let v = crate::refinf::inflate(&m, &crate::refinf::Opts::flat(zlib));
            if last_status != 0 || collected != v.out {
                return viol("C03.valid_stream_finishes", format!("[tinfl_decompress] valid stream ended with status {} after {} of {} bytes", last_status, collected.len(), v.out.len()));
            }
        }
        // one-shot helpers
        if s.c("heap") != 0 {
            let gsrc = Guard::with(&m, true);
            for cap2 in [s.c("plain_len").max(0) as usize, (s.c("plain_len").max(1) - 1) as usize, s.c("plain_len").max(0) as usize + 300] {
                let gdst = Guard::new(cap2, cap2 % 2 == 1);
                let r = c::tinfl_decompress_mem_to_mem(gdst.ptr as *mut c_void, cap2, gsrc.ptr as *const c_void, m.len(), base_flags as c_int & 1);
                st.inc("calls");
                if let Some(i) = gdst.canary_intact() {
                    return viol("C17.writes_inside_output_range", format!("tinfl_decompress_mem_to_mem(cap {}): byte at mapping offset {} outside the destination modified", cap2, i));
                }
                let mut d2 = DecompressorOxide::new();
                let mut o2 = vec![0u8; cap2];
                let (s2, _, w2) = decompress(&mut d2, &m, &mut o2, 0, (base_flags & 1) | 4);
                let exp = if s2 == miniz_oxide::inflate::TINFLStatus::Done { w2 } else { usize::MAX };
                if r != exp {
                    return viol("C17.same_as_rust", format!("tinfl_decompress_mem_to_mem(cap {}) = {}, Rust gives {:?}/{}", cap2, r as isize, s2, w2));
                }
                if r != usize::MAX && gdst.bytes()[..r] != o2[..r] {
                    return viol("C17.same_bytes_as_rust", "tinfl_decompress_mem_to_mem bytes differ".into());
                }
            }
            let mut out_len = 0usize;
            let p = c::tinfl_decompress_mem_to_heap(gsrc.ptr as *const c_void, m.len(), &mut out_len, base_flags as c_int & 1);
            st.inc("calls");
            let rv = if zlib { miniz_oxide::inflate::decompress_to_vec_zlib(&m) } else { miniz_oxide::inflate::decompress_to_vec(&m) };
            match (p.is_null(), rv) {
                (false, Ok(v)) => {
                    let got = std::slice::from_raw_parts(p as *const u8, out_len).to_vec();
                    c::miniz_def_free_func(std::ptr::null_mut(), p);
                    if got != v {
                        return viol("C17.same_bytes_as_rust", format!("tinfl_decompress_mem_to_heap: {} bytes vs {}", got.len(), v.len()));
                    }
                }
                (true, Err(_)) => {}
                (isnull, r) => {
                    if !isnull {
                        c::miniz_def_free_func(std::ptr::null_mut(), p);
                    }
                    return viol("C17.same_as_rust", format!("tinfl_decompress_mem_to_heap null={} but decompress_to_vec ok={}", isnull, r.is_ok()));
                }
            }
        }
    }
    Ok(RunInfo { hash: h.0, nontrivial: s.ops.len() > 1 || !s.faults.is_empty() })
}

// ------------------------------------------------------------------------------------------------
// family 6: misuse expressible in C returns an error code instead of crashing
// ------------------------------------------------------------------------------------------------

fn expect(name: &str, got: i32, want: &[i32]) -> Result<(), Violation> {
    if !want.contains(&got) {
        return viol("C17.misuse_returns_error_code", format!("{}: returned {}, expected one of {:?}", name, got, want));
    }
    Ok(())
}

unsafe extern "C" fn dummy_alloc(_o: *mut c_void, _n: usize, _s: usize) -> *mut c_void {
    std::ptr::null_mut()
}
unsafe extern "C" fn dummy_free(_o: *mut c_void, _p: *mut c_void) {}

fn fam_misuse(s: &Script, st: &mut Stats) -> Result<RunInfo, Violation> {
    const STREAM: i32 = MZError::Stream as i32;
    const PARAM: i32 = MZError::Param as i32;
    let mut h = Hasher::new();
    let data = s.blob("plain");
    unsafe {
        for op in &s.ops {
            let kind = op[0];
            let a = op.get(1).copied().unwrap_or(0);
            let b = op.get(2).copied().unwrap_or(0);
            st.inc("calls");
            st.inc("steps");
            st.inc(&format!("fault.misuse.{}", kind));
            let g = Guard::with(data, true);
            let go = Guard::new(64, true);
            match kind {
                0 => {
                    // null stream
                    expect("mz_deflate(NULL)", c::mz_deflate(std::ptr::null_mut(), a as c_int), &[STREAM])?;
                    expect("mz_inflate(NULL)", c::mz_inflate(std::ptr::null_mut(), a as c_int), &[STREAM])?;
                    expect("mz_deflateInit2(NULL)", c::mz_deflateInit2(std::ptr::null_mut(), 6, 8, 15, 9, 0), &[STREAM])?;
                    expect("mz_inflateInit2(NULL)", c::mz_inflateInit2(std::ptr::null_mut(), 15), &[STREAM])?;
                    expect("mz_deflateEnd(NULL)", c::mz_deflateEnd(std::ptr::null_mut()), &[STREAM])?;
                    expect("mz_inflateEnd(NULL)", c::mz_inflateEnd(std::ptr::null_mut()), &[STREAM])?;
                    expect("mz_deflateReset(NULL)", c::mz_deflateReset(std::ptr::null_mut()), &[STREAM])?;
                }
                1 => {
                    // null buffers with non-zero avail
                    let mut z = c::mz_stream::default();
                    expect("mz_deflateInit", c::mz_deflateInit(&mut z, 6), &[0])?;
                    z.next_in = std::ptr::null();
                    z.avail_in = 10;
                    z.next_out = go.ptr;
                    z.avail_out = 64;
                    expect("mz_deflate(next_in NULL, avail_in 10)", c::mz_deflate(&mut z, a as c_int % 5), &[STREAM, PARAM])?;
                    z.next_in = g.ptr;
                    z.avail_in = data.len() as u32;
                    z.next_out = std::ptr::null_mut();
                    z.avail_out = 10;
                    expect("mz_deflate(next_out NULL, avail_out 10)", c::mz_deflate(&mut z, a as c_int % 5), &[STREAM, PARAM])?;
                    expect("mz_deflateEnd", c::mz_deflateEnd(&mut z), &[0])?;
                    let mut y = c::mz_stream::default();
                    expect("mz_inflateInit", c::mz_inflateInit(&mut y), &[0])?;
                    y.next_in = std::ptr::null();
                    y.avail_in = 10;
                    y.next_out = go.ptr;
                    y.avail_out = 64;
                    expect("mz_inflate(next_in NULL, avail_in 10)", c::mz_inflate(&mut y, 0), &[STREAM, PARAM])?;
                    expect("mz_inflateEnd", c::mz_inflateEnd(&mut y), &[0])?;
                }
                2 => {
                    // a stream of the other kind
                    let mut z = c::mz_stream::default();
                    expect("mz_deflateInit", c::mz_deflateInit(&mut z, 1), &[0])?;
                    z.next_in = g.ptr;
                    z.avail_in = data.len() as u32;
                    z.next_out = go.ptr;
                    z.avail_out = 64;
                    expect("mz_inflate(deflate stream)", c::mz_inflate(&mut z, a as c_int % 5), &[PARAM, STREAM])?;
                    expect("mz_inflateEnd(deflate stream)", c::mz_inflateEnd(&mut z), &[PARAM, STREAM])?;
                    expect("mz_deflateEnd", c::mz_deflateEnd(&mut z), &[0])?;
                    let mut y = c::mz_stream::default();
                    expect("mz_inflateInit", c::mz_inflateInit(&mut y), &[0])?;
                    y.next_in = g.ptr;
                    y.avail_in = data.len() as u32;
                    y.next_out = go.ptr;
                    y.avail_out = 64;
                    expect("mz_deflate(inflate stream)", c::mz_deflate(&mut y, a as c_int % 5), &[PARAM, STREAM])?;
                    expect("mz_deflateReset(inflate stream)", c::mz_deflateReset(&mut y), &[PARAM, STREAM])?;
                    expect("mz_deflateEnd(inflate stream)", c::mz_deflateEnd(&mut y), &[PARAM, STREAM])?;
                    expect("mz_inflateEnd", c::mz_inflateEnd(&mut y), &[0])?;
                }
                3 => {
                    // never initialised / already ended
                    let mut z = c::mz_stream::default();
                    z.next_in = g.ptr;
                    z.avail_in = data.len() as u32;
                    z.next_out = go.ptr;
                    z.avail_out = 64;
                    expect("mz_deflate(uninitialised)", c::mz_deflate(&mut z, 0), &[PARAM, STREAM])?;
                    expect("mz_inflate(uninitialised)", c::mz_inflate(&mut z, 0), &[PARAM, STREAM])?;
                    expect("mz_deflateInit", c::mz_deflateInit(&mut z, 6), &[0])?;
                    expect("mz_deflateEnd", c::mz_deflateEnd(&mut z), &[0])?;
                    z.next_in = g.ptr;
                    z.avail_in = data.len() as u32;
                    z.next_out = go.ptr;
                    z.avail_out = 64;
                    expect("mz_deflate(ended)", c::mz_deflate(&mut z, 4), &[PARAM, STREAM])?;
                    expect("mz_deflateReset(ended)", c::mz_deflateReset(&mut z), &[PARAM, STREAM])?;
                    expect("mz_deflateEnd(twice)", c::mz_deflateEnd(&mut z), &[0, PARAM, STREAM])?;
                }
                4 => {
                    // flush outside 0..=4
                    let mut z = c::mz_stream::default();
                    expect("mz_deflateInit", c::mz_deflateInit(&mut z, 6), &[0])?;
                    z.next_in = g.ptr;
                    z.avail_in = data.len() as u32;
                    z.next_out = go.ptr;
                    z.avail_out = 64;
                    let bad = if (0..=4).contains(&a) { a + 5 } else { a };
                    let before = snap(&z);
                    expect("mz_deflate(bad flush)", c::mz_deflate(&mut z, bad as c_int), &[PARAM, STREAM])?;
                    let (di, do_) = accounting(&before, &z, "mz_deflate(bad flush)", 1)?;
                    if di != 0 || do_ != 0 {
                        return viol("C17.misuse_returns_error_code", format!("mz_deflate(flush {}) consumed {} / wrote {}", bad, di, do_));
                    }
                    expect("mz_deflateEnd", c::mz_deflateEnd(&mut z), &[0])?;
                    let mut y = c::mz_stream::default();
                    expect("mz_inflateInit", c::mz_inflateInit(&mut y), &[0])?;
                    y.next_in = g.ptr;
                    y.avail_in = data.len() as u32;
                    y.next_out = go.ptr;
                    y.avail_out = 64;
                    expect("mz_inflate(bad flush)", c::mz_inflate(&mut y, bad as c_int), &[PARAM, STREAM])?;
                    expect("mz_inflateEnd", c::mz_inflateEnd(&mut y), &[0])?;
                }
                5 => {
                    // level in -5..=15: a defined result (error or clamped success), then a working stream
                    let mut z = c::mz_stream::default();
                    let rc = c::mz_deflateInit(&mut z, a as c_int);
                    expect("mz_deflateInit(level)", rc, &[0, PARAM, STREAM])?;
                    if rc == 0 {
                        z.next_in = g.ptr;
                        z.avail_in = data.len() as u32;
                        let gd = Guard::new(data.len() * 2 + 200, true);
                        z.next_out = gd.ptr;
                        z.avail_out = gd.len as u32;
                        expect("mz_deflate(FINISH) after odd level", c::mz_deflate(&mut z, 4), &[1])?;
                        let out = gd.bytes()[..z.total_out as usize].to_vec();
                        if miniz_oxide::inflate::decompress_to_vec_zlib(&out).ok().as_deref() != Some(data) {
                            return viol("C17.misuse_returns_error_code", format!("level {} accepted but the output does not round-trip", a));
                        }
                        expect("mz_deflateEnd", c::mz_deflateEnd(&mut z), &[0])?;
                    }
                }
                6 => {
                    // window_bits not in {15, -15}; method != 8; mem_level outside 1..=9
                    let mut z = c::mz_stream::default();
                    let wb = if a == 15 || a == -15 { 14 } else { a };
                    expect("mz_deflateInit2(bad window_bits)", c::mz_deflateInit2(&mut z, 6, 8, wb as c_int, 9, 0), &[PARAM])?;
                    expect("mz_inflateInit2(bad window_bits)", c::mz_inflateInit2(&mut z, wb as c_int), &[PARAM])?;
                    let meth = if b == 8 { 7 } else { b };
                    expect("mz_deflateInit2(bad method)", c::mz_deflateInit2(&mut z, 6, meth as c_int, 15, 9, 0), &[PARAM])?;
                    let ml = if (1..=9).contains(&b) { b + 9 } else { b };
                    expect("mz_deflateInit2(bad mem_level)", c::mz_deflateInit2(&mut z, 6, 8, 15, ml as c_int, 0), &[PARAM])?;
                    // the stream object is still usable afterwards
                    expect("mz_deflateInit after rejected init", c::mz_deflateInit(&mut z, 6), &[0])?;
                    expect("mz_deflateEnd", c::mz_deflateEnd(&mut z), &[0])?;
                }
                7 => {
                    // custom allocators are refused
                    let mut z = c::mz_stream::default();
                    if a % 2 == 0 {
                        z.zalloc = Some(dummy_alloc);
                    } else {
                        z.zfree = Some(dummy_free);
                    }
                    expect("mz_deflateInit(zalloc set)", c::mz_deflateInit(&mut z, 6), &[PARAM])?;
                    expect("mz_inflateInit(zalloc set)", c::mz_inflateInit(&mut z), &[PARAM])?;
                    let mut y = c::mz_stream::default();
                    expect("mz_deflateInit", c::mz_deflateInit(&mut y, 6), &[0])?;
                    y.zalloc = Some(dummy_alloc);
                    y.next_in = g.ptr;
                    y.avail_in = data.len() as u32;
                    y.next_out = go.ptr;
                    y.avail_out = 64;
                    expect("mz_deflate(zalloc set later)", c::mz_deflate(&mut y, 0), &[PARAM])?;
                    y.zalloc = None;
                    expect("mz_deflateEnd", c::mz_deflateEnd(&mut y), &[0])?;
                }
                8 => {
                    // null dest_len; sizes that do not fit 32 bits
                    expect("mz_compress2(dest_len NULL)", c::mz_compress2(go.ptr, std::ptr::null_mut(), g.ptr, data.len() as c_ulong, 6), &[PARAM])?;
                    expect("mz_uncompress(dest_len NULL)", c::mz_uncompress(go.ptr, std::ptr::null_mut(), g.ptr, data.len() as c_ulong), &[PARAM])?;
                    let mut big: c_ulong = 0x1_0000_0000;
                    expect("mz_compress2(dest_len > 4 GiB)", c::mz_compress2(go.ptr, &mut big, g.ptr, data.len() as c_ulong, 6), &[PARAM])?;
                    let mut dl: c_ulong = 64;
                    expect("mz_uncompress(source_len > 4 GiB)", c::mz_uncompress(go.ptr, &mut dl, g.ptr, 0x1_0000_0001), &[PARAM])?;
                }
                9 => {
                    // tdefl_compress: null compressor, null buffers with sizes, callback plus buffer
                    let mut isz = data.len();
                    let mut osz = 64usize;
                    let r = c::tdefl_compress(None, g.ptr as *const c_void, Some(&mut isz), go.ptr as *mut c_void, Some(&mut osz), std::mem::transmute(4i32)) as i32;
                    expect("tdefl_compress(NULL compressor)", r, &[-2])?;
                    if isz != 0 || osz != 0 {
                        return viol("C17.misuse_returns_error_code", format!("tdefl_compress(NULL): sizes left at {} / {}", isz, osz));
                    }
                    let cp = c::tdefl_allocate();
                    // not initialised yet
                    let mut isz = data.len();
                    let mut osz = 64usize;
                    let r = c::tdefl_compress(cp.as_mut(), g.ptr as *const c_void, Some(&mut isz), go.ptr as *mut c_void, Some(&mut osz), std::mem::transmute(4i32)) as i32;
                    expect("tdefl_compress(uninitialised)", r, &[-2])?;
                    expect("tdefl_init", c::tdefl_init(cp.as_mut(), None, std::ptr::null_mut(), 0x1080) as i32, &[0])?;
                    let mut isz = 10usize;
                    let mut osz = 64usize;
                    let r = c::tdefl_compress(cp.as_mut(), std::ptr::null(), Some(&mut isz), go.ptr as *mut c_void, Some(&mut osz), std::mem::transmute(0i32)) as i32;
                    expect("tdefl_compress(in NULL, in_size 10)", r, &[-2])?;
                    let mut isz = data.len();
                    let mut osz = 10usize;
                    let r = c::tdefl_compress(cp.as_mut(), g.ptr as *const c_void, Some(&mut isz), std::ptr::null_mut(), Some(&mut osz), std::mem::transmute(0i32)) as i32;
                    expect("tdefl_compress(out NULL, out_size 10)", r, &[-2])?;
                    let mut sink: (Vec<u8>, i64, i64) = (Vec::new(), 0, 0);
                    expect("tdefl_init(callback)", c::tdefl_init(cp.as_mut(), Some(collect_cb), &mut sink as *mut _ as *mut c_void, 0x1080) as i32, &[0])?;
                    let mut isz = data.len();
                    let mut osz = 64usize;
                    let r = c::tdefl_compress(cp.as_mut(), g.ptr as *const c_void, Some(&mut isz), go.ptr as *mut c_void, Some(&mut osz), std::mem::transmute(0i32)) as i32;
                    expect("tdefl_compress(callback plus buffer)", r, &[-2])?;
                    c::tdefl_deallocate(cp);
                    expect("tdefl_init(NULL)", c::tdefl_init(None, None, std::ptr::null_mut(), 0) as i32, &[-2])?;
                    c::tdefl_deallocate(std::ptr::null_mut());
                    let mut ol = 5usize;
                    if !c::tdefl_compress_mem_to_heap(g.ptr as *const c_void, data.len(), std::ptr::null_mut(), 0).is_null() {
                        return viol("C17.misuse_returns_error_code", "tdefl_compress_mem_to_heap(out_len NULL) returned a buffer".into());
                    }
                    let _ = &mut ol;
                    if c::tdefl_compress_mem_to_mem(std::ptr::null_mut(), 100, g.ptr as *const c_void, data.len(), 0) != 0 {
                        return viol("C17.misuse_returns_error_code", "tdefl_compress_mem_to_mem(NULL) != 0".into());
                    }
                    if c::tdefl_compress_mem_to_output(g.ptr as *const c_void, data.len(), None, std::ptr::null_mut(), 0) != 0 {
                        return viol("C17.misuse_returns_error_code", "tdefl_compress_mem_to_output(no callback) != 0".into());
                    }
                }
                11 => {
                    // the bound functions take no buffer: a NULL stream must not matter (values are C15's business)
                    let n = (a.max(0) as c_ulong) * 977 + data.len() as c_ulong;
                    let b1 = c::mz_deflateBound(std::ptr::null_mut(), n);
                    let mut z = c::mz_stream::default();
                    let b2 = c::mz_deflateBound(&mut z, n);
                    let b3 = c::mz_compressBound(n);
                    if b1 != b2 {
                        return viol("C17.misuse_returns_error_code", format!("mz_deflateBound({}) depends on the stream argument: NULL -> {}, zeroed stream -> {}", n, b1, b2));
                    }
                    h.u(b1 as u64 ^ b3 as u64);
                }
                12 => {
                    // the default allocator callbacks (what a C caller may store in zalloc / zfree)
                    let items = 1 + (a.max(0) as usize % 7);
                    let size = 1 + data.len();
                    let p1 = c::miniz_def_alloc_func(std::ptr::null_mut(), items, size) as *mut u8;
                    if p1.is_null() {
                        return viol("C17.allocate", format!("miniz_def_alloc_func({}, {}) returned NULL", items, size));
                    }
                    std::ptr::copy_nonoverlapping(data.as_ptr(), p1, data.len());
                    let p2 = c::miniz_def_realloc_func(std::ptr::null_mut(), p1 as *mut c_void, items + 3, size * 2) as *mut u8;
                    if p2.is_null() {
                        c::miniz_def_free_func(std::ptr::null_mut(), p1 as *mut c_void);
                        return viol("C17.allocate", "miniz_def_realloc_func returned NULL".into());
                    }
                    let kept = std::slice::from_raw_parts(p2, data.len()) == data;
                    c::miniz_def_free_func(std::ptr::null_mut(), p2 as *mut c_void);
                    c::miniz_def_free_func(std::ptr::null_mut(), std::ptr::null_mut());
                    if !kept {
                        return viol("C17.same_bytes_as_rust", "miniz_def_realloc_func lost the contents of the block".into());
                    }
                }
                _ => {
                    // checksums with NULL
                    if c::mz_adler32(7, std::ptr::null(), 5) != 1 || c::mz_crc32(7, std::ptr::null(), 5) != 0 {
                        return viol("C17.misuse_returns_error_code", "checksum of NULL is not the init value".into());
                    }
                    // the two checksum exports in lock-step with the Rust functions over a split of the buffer that
                    // includes empty (non-NULL) chunks, each update starting from the previous result; the buffer
                    // ends at an inaccessible page
                    let n = data.len();
                    let c1 = (a.unsigned_abs() as usize) % (n + 1);
                    let c2 = c1 + (b.unsigned_abs() as usize) % (n - c1 + 1);
                    let (mut ca, mut cc) = (1u32, 0u32);
                    for (lo, hi) in [(0, c1), (c1, c1), (c1, c2), (c2, c2), (c2, n), (n, n)] {
                        let sl = std::slice::from_raw_parts(g.ptr.add(lo) as *const u8, hi - lo);
                        let ra = miniz_oxide::mz_adler32_oxide(ca, sl);
                        let rc = miniz_oxide_c_api::mz_crc32_oxide(cc, sl);
                        let xa = c::mz_adler32(ca as libc::c_ulong, g.ptr.add(lo), hi - lo) as u32;
                        let xc = c::mz_crc32(cc as libc::c_ulong, g.ptr.add(lo), hi - lo) as u32;
                        if xa != ra || xc != rc {
                            return viol("C17.same_bytes_as_rust", format!("checksum of bytes {}..{} of {} starting from adler {:#x} / crc {:#x}: mz_adler32 {:#x} vs mz_adler32_oxide {:#x}, mz_crc32 {:#x} vs mz_crc32_oxide {:#x}", lo, hi, n, ca, cc, xa, ra, xc, rc));
                        }
                        ca = ra;
                        cc = rc;
                    }
                }
            }
            h.u(kind as u64);
        }
    }
    Ok(RunInfo { hash: h.0, nontrivial: true })
}

pub fn exec(s: &Script, st: &mut Stats) -> Result<RunInfo, Violation> {
    match s.c("family") {
        0 => fam_deflate(s, st),
        1 => fam_inflate(s, st),
        2 => fam_oneshot(s, st),
        3 => fam_tdefl(s, st),
        5 => fam_tinfl(s, st),
        _ => fam_misuse(s, st),
    }
}

pub fn gen_c17(rng: &mut Rng, _i: u64, tier: Tier) -> Script {
    let mut s = Script::new("C17", "cabi");
    let fam = rng.pick(&[0i64, 0, 0, 1, 1, 1, 2, 3, 3, 5, 5, 6]);
    s.set("family", fam);
    let big = if tier == Tier::Thorough { 8 } else { 4 };
    let psize = |rng: &mut Rng| match rng.below(100) {
        x if x < big => rng.range(30_000, 150_000),
        x if x < 25 => rng.range(600, 8000),
        _ => rng.range(0, 600),
    };
    match fam {
        0 => {
            s.set("level", rng.pick(&[-1i64, 0, 1, 2, 6, 9, 10, 4, 12]));
            s.set("zlib", rng.chance(2, 3) as i64);
            s.set("strategy", rng.pick(&[0i64, 0, 0, 1, 2, 3, 4]));
            s.set("mem_level", rng.range(1, 9) as i64);
            s.set("init1", rng.chance(1, 3) as i64);
            if rng.chance(1, 6) {
                s.set("total_bias", rng.pick(&[1i64, 16, 1000, 70000, 1 << 20]));
            }
            let n = psize(rng);
            let mut plain = gen::plaintext(rng, n);
            let style = rng.next_u64();
            let fp = rng.pick(&[0u64, 10, 40]);
            let mut ops = crate::props_pipe::comp_ops(rng, n, style, &[1, 2, 3, 4, 5, 6, -1, 100], fp, true);
            for o in ops.iter_mut() {
                o.push(if rng.chance(1, 30) { 1 } else { 0 });
            }
            if rng.chance(1, 40) {
                // input whose running Adler-32 is special (0 / 1 / a zero half) right when the stream is reset or
                // flushed: fed without a flush request, then a reset (or a flush), then ordinary data
                let (ta, tb) = gen::adler_special(rng);
                let pl = rng.pick(&[0usize, 0, 30]);
                let t = gen::adler_target(rng, ta, tb, pl);
                let tl = t.len() as i64;
                let big = (t.len() + plain.len() + 1000) as i64;
                let mut p2 = t;
                plain.truncate(300);
                p2.extend_from_slice(&plain);
                plain = p2;
                let mut o2: Vec<Vec<i64>> = Vec::new();
                if rng.chance(1, 2) {
                    o2.push(vec![tl, big, 0, 0]);
                } else {
                    o2.push(vec![tl - 1, big, 0, 0]);
                    o2.push(vec![1, big, 0, 0]);
                }
                o2.push(vec![rng.pick(&[0i64, 10, 300]), big, rng.pick(&[0i64, 2, 4]), rng.pick(&[1i64, 1, 0])]);
                ops = o2;
            }
            s.ops = ops;
            s.set_blob("plain", plain);
        }
        1 => {
            let zlib = rng.chance(2, 3);
            s.set("zlib", zlib as i64);
            s.set("init1", rng.chance(1, 3) as i64);
            if rng.chance(1, 6) {
                s.set("total_bias", rng.pick(&[1i64, 16, 1000, 70000, 1 << 20]));
            }
            let target = psize(rng);
            let vs = valid_stream(rng, zlib, target, 32768, None);
            let n = vs.bytes.len();
            match rng.below(6) {
                0 => s.faults.push(random_fault(rng, n)),
                1 => s.faults.push(vec![crate::dec::F_TAIL, rng.below(1 << 30) as i64, rng.range(1, 30) as i64, rng.below(4) as i64]),
                2 if n > 0 => s.faults.push(vec![crate::dec::F_TRUNC, rng.usize_below(n) as i64]),
                _ => {}
            }
            let style = rng.next_u64();
            s.ops = gen::stream_ops(rng, n + 8, style, &[0, 0, 0, 1, 2, 4, 3, 5, 7]);
            s.set_blob("stream", vs.bytes);
        }
        2 => {
            s.set("level", rng.pick(&[-1i64, 0, 1, 6, 9, 10, 3]));
            s.set("use_compress1", rng.chance(1, 3) as i64);
            s.set("dest_mode", rng.below(4) as i64);
            s.set("dest_arg", rng.range(0, 5000) as i64);
            s.set("udest_mode", rng.below(4) as i64);
            s.set("flip", rng.below(2) as i64);
            s.set("corrupt", if rng.chance(1, 4) { rng.range(1, 100000) as i64 } else { 0 });
            let n = psize(rng);
            s.set_blob("plain", gen::plaintext(rng, n));
        }
        3 => {
            let level = rng.range(0, 10) as i32;
            let zl = rng.chance(1, 2);
            let strat = rng.pick(&[0i32, 0, 1, 2, 3, 4]);
            let mut flags = create_comp_flags_from_zip_params(level, if zl { 15 } else { -15 }, strat);
            if rng.chance(1, 3) {
                flags |= deflate_flags::TDEFL_COMPUTE_ADLER32;
            }
            s.set("tdefl_flags", flags as i64);
            s.set("callback", rng.chance(1, 2) as i64);
            s.set("reinit", rng.chance(1, 4) as i64);
            s.set("heap", rng.chance(1, 2) as i64);
            if s.c("callback") != 0 && rng.chance(1, 3) {
                s.set("buffer_fn", 1);
            }
            if s.c("callback") != 0 && rng.chance(1, 10) {
                s.set("putfail", rng.range(1, 3) as i64);
            }
            let n = psize(rng);
            let plain = gen::plaintext(rng, n);
            let style = rng.next_u64();
            let fp = rng.pick(&[0u64, 10, 40]);
            s.ops = crate::props_pipe::comp_ops(rng, n, style, &[2, 3, 4], fp, true);
            s.set_blob("plain", plain);
        }
        5 => {
            let zlib = rng.chance(1, 2);
            s.set("zlib", zlib as i64);
            let target = match rng.below(10) {
                0 => rng.range(10_000, 60_000),
                _ => rng.range(0, 2000),
            };
            let vs = valid_stream(rng, zlib, target, 32768, None);
            let n = vs.bytes.len();
            if rng.chance(1, 4) {
                s.faults.push(random_fault(rng, n));
            }
            let ring = rng.chance(1, 2);
            s.set("mode", ring as i64);
            s.set("ring_bits", 15);
            s.set("flat_cap", (vs.plain_len + rng.pick(&[0usize, 1, 300])) as i64);
            s.set("plain_len", vs.plain_len as i64);
            s.set("heap", rng.chance(1, 2) as i64);
            s.set("heap_obj", rng.chance(1, 2) as i64);
            s.set("tinfl_init", rng.chance(1, 3) as i64);
            if rng.chance(1, 5) {
                s.set("tinfl_reuse", rng.range(1, 10) as i64);
            }
            let style = rng.next_u64();
            s.ops = gen::core_ops(rng, n + 4, style);
            s.set_blob("stream", vs.bytes);
        }
        _ => {
            let n = rng.range(0, 200);
            s.set_blob("plain", gen::plaintext(rng, n));
            for _ in 0..rng.range(1, 6) {
                let kind = rng.below(13) as i64;
                let a = match kind {
                    4 => rng.pick(&[-1i64, 5, 6, 7, 100, -100, 255]),
                    5 => rng.range(0, 20) as i64 - 5,
                    6 => rng.pick(&[0i64, 8, 9, 14, 16, -8, -14, 31, 47, -1, 1]),
                    _ => rng.below(10) as i64,
                };
                let b = match kind {
                    6 => rng.pick(&[0i64, 7, 9, 10, -1, 100]),
                    _ => 0,
                };
                s.ops.push(vec![kind, a, b]);
            }
        }
    }
    s
}

pub fn defs() -> Vec<CheckDef> {
    vec![CheckDef {
        id: "C17",
        level: "fault_enumeration",
        runs_quick: 1_500_000,
        runs_thorough: 30_000_000,
        block: 128,
        gen: gen_c17,
        exec,
        rule: "run = one of: mz_deflateInit[2]/mz_deflate/mz_deflateReset/mz_deflateEnd in lock step with deflate() (any flush value incl. out-of-range ones); mz_inflateInit[2]/mz_inflate/mz_inflateEnd in lock step with inflate() on valid / corrupt / truncated / trailing-byte streams; mz_compress[2] + mz_uncompress with destinations around mz_compressBound and around the plaintext size; tdefl_allocate/init/compress (buffer or callback sink, optional failing callback)/get_adler32/get_prev_return_status/deallocate in lock step with compress()/compress_to_output(), tdefl_compress_mem_to_heap/mem; tinfl_decompress (flat and 32 KiB ring, out_buf_next != start) in lock step with decompress(), tinfl_decompress_mem_to_mem/heap; a battery of misuse operations (null stream, null buffers with sizes, stream of the other kind, uninitialised / ended stream, bad flush / level / window_bits / method / mem_level, custom allocators, null dest_len, > 4 GiB sizes, tdefl misuse). Every input and output window of every call lives in an mmap'ed region whose declared range ends at (or starts after) a PROT_NONE page, the rest of the mapping is canary-painted; a signal or abort is observed at process level. non-trivial = more than one call, a fault or a misuse op; distinct = shape fingerprint",
        shrink_cfg: &[],
        shrink_blobs: false,
        assumptions: &[
            "the C functions are called as Rust extern \"C\" items of the rlib (same machine code a C caller links against); no C compiler involved",
            "guard pages detect accesses beyond the page boundary side of a buffer; the other side is covered by canaries (writes) only",
            "harness built with panic=unwind: a panic inside an extern \"C\" function without catch_unwind aborts the worker, which the parent reports",
            "x86-64 Linux only",
        ],
    }]
}
