//! `sum` scenario (C16): incremental checksum calls under split schedules against the bytewise
//! definitions; plus generators that run pipe/dec scripts with the running-checksum probes enabled.

use crate::pipe::{PC_C02, PC_C16};
use crate::refinf::{adler32_def, crc32_def};
use crate::rng::{Hasher, Rng};
use crate::runner::{CheckDef, RunInfo, Tier};
use crate::script::{viol, Script, Stats, Violation};

fn update(kind: i64, start: u32, data: &[u8]) -> u32 {
    match kind {
        0 => miniz_oxide::mz_adler32_oxide(start, data),
        1 => miniz_oxide_c_api::mz_crc32_oxide(start, data),
        2 => unsafe { miniz_oxide_c_api::mz_adler32(start as libc::c_ulong, data.as_ptr(), data.len()) as u32 },
        _ => unsafe { miniz_oxide_c_api::mz_crc32(start as libc::c_ulong, data.as_ptr(), data.len()) as u32 },
    }
}

fn def(kind: i64, start: u32, data: &[u8]) -> u32 {
    if kind % 2 == 0 {
        adler32_def(start, data)
    } else {
        crc32_def(start, data)
    }
}

pub fn exec_sum(s: &Script, st: &mut Stats) -> Result<RunInfo, Violation> {
    let data = s.blob("data");
    let kind = s.c("kind");
    let name = ["mz_adler32_oxide", "mz_crc32_oxide", "mz_adler32", "mz_crc32"][kind as usize & 3];
    let init: u32 = if kind % 2 == 0 { 1 } else { 0 };
    let whole = def(kind, init, data);
    let mut h = Hasher::new();
    let check_split = |cuts: &[usize], st: &mut Stats| -> Result<u32, Violation> {
        let mut v = init;
        let mut model = init;
        let mut prev = 0usize;
        for &c in cuts.iter().chain(std::iter::once(&data.len())) {
            let c = c.min(data.len()).max(prev);
            v = update(kind, v, &data[prev..c]);
            model = def(kind, model, &data[prev..c]);
            st.inc("calls");
            if v != model {
                return viol("C16.update_equals_definition", format!("{}: after updating with bytes [{}, {}) of a {}-byte buffer: {:#010x}, definition gives {:#010x}", name, prev, c, data.len(), v, model));
            }
            prev = c;
        }
        Ok(v)
    };
    st.inc("steps");
    let mut nontrivial = false;
    if s.c("family") == 1 {
        // every single split point
        let step = s.c_or("sweep_step", 1).max(1) as usize;
        let mut c = 0;
        while c <= data.len() {
            let v = check_split(&[c], st)?;
            if v != whole {
                return viol("C16.split_independent", format!("{}: split at {} of {} gives {:#010x}, one pass gives {:#010x}", name, c, data.len(), v, whole));
            }
            c += step;
        }
        nontrivial = true;
        st.add("probe.sweep_splits", (data.len() / step) as u64 + 1);
    } else {
        let mut cuts: Vec<usize> = Vec::new();
        let mut p = 0usize;
        for o in &s.ops {
            p += o[0].max(0) as usize;
            cuts.push(p);
        }
        let v = check_split(&cuts, st)?;
        if v != whole {
            return viol("C16.split_independent", format!("{}: {}-way split gives {:#010x}, one pass gives {:#010x}", name, cuts.len() + 1, v, whole));
        }
        if !cuts.is_empty() {
            nontrivial = true;
        }
    }
    let one = update(kind, init, data);
    if one != whole {
        return viol("C16.update_equals_definition", format!("{}: one pass over {} bytes gives {:#010x}, definition {:#010x}", name, data.len(), one, whole));
    }
    if kind >= 2 {
        // null pointer => the initial value
        let r = unsafe {
            if kind == 2 {
                miniz_oxide_c_api::mz_adler32(12345, std::ptr::null(), 10) as u32
            } else {
                miniz_oxide_c_api::mz_crc32(12345, std::ptr::null(), 10) as u32
            }
        };
        if r != init {
            return viol("C16.null_pointer_gives_init", format!("{}(x, NULL, 10) = {:#x}, expected {:#x}", name, r, init));
        }
    }
    h.u(whole as u64);
    h.u(one as u64);
    Ok(RunInfo { hash: h.0, nontrivial })
}

pub fn exec(s: &Script, st: &mut Stats) -> Result<RunInfo, Violation> {
    match s.scen.as_str() {
        "sum" => exec_sum(s, st),
        "dec" => crate::dec::exec(s, st),
        "cabi" => crate::cabi::exec(s, st),
        _ => crate::pipe::exec(s, st),
    }
}

fn sum_len(rng: &mut Rng) -> usize {
    match rng.below(12) {
        0 => 0,
        1 => 1,
        2 => rng.range(15, 17),
        3 => rng.range(31, 33),
        4 => rng.range(63, 65),
        5 => rng.range(5551, 5553),
        6 => rng.range(65535, 65537),
        7 => rng.range(65538, 300_000),
        8 => rng.range(5554, 20000),
        _ => rng.range(2, 600),
    }
}

pub fn gen_c16(rng: &mut Rng, i: u64, tier: Tier) -> Script {
    if i < crate::props_pipe::PHASE_SCRIPTS {
        // compressor running checksum across every phase of the self-initiated block flush
        return crate::props_pipe::phase_sweep_script(rng, i, "C16");
    }
    match rng.below(13) {
        12 => {
            // the C stream's adler field: mz_deflate / mz_inflate in lock step (cabi scenario)
            let mut r2 = rng.fork();
            let mut s = crate::cabi::gen_c17(&mut r2, 0, tier);
            for _ in 0..40 {
                if s.c("family") <= 1 {
                    break;
                }
                s = crate::cabi::gen_c17(&mut r2, 0, tier);
            }
            s.prop = "C16".into();
            s
        }
        0..=5 => {
            let mut s = Script::new("C16", "sum");
            s.set("kind", rng.below(4) as i64);
            let mut n = sum_len(rng);
            let mut data = match rng.below(4) {
                0 => vec![0xFFu8; n],
                1 => vec![0u8; n],
                _ => rng.bytes(n),
            };
            if s.c("kind") % 2 == 0 && rng.chance(1, 15) {
                // a prefix whose Adler-32 is a special value (0, 1, a zero half ...) is the seed of the next update
                let (ta, tb) = crate::gen::adler_special(rng);
                let pl = rng.pick(&[0usize, 5, 300]);
                let t = crate::gen::adler_target(rng, ta, tb, pl);
                let tl = t.len();
                data.truncate(60);
                let mut d2 = t;
                d2.extend_from_slice(&data);
                data = d2;
                n = data.len();
                s.ops.push(vec![tl as i64 - rng.pick(&[0i64, 0, 1])]);
                s.ops.push(vec![rng.pick(&[0i64, 1, 1, 5])]);
                s.set_blob("data", data);
                return s;
            }
            if n <= 700 && rng.chance(1, 3) {
                s.set("family", 1);
            } else if rng.chance(1, 10) {
                s.set("family", 1);
                s.set("sweep_step", (n as i64 / 300).max(1));
            } else {
                let k = rng.range(0, 12);
                let mut left = n;
                for _ in 0..k {
                    let c = match rng.below(6) {
                        0 => 0,
                        1 => 1,
                        2 => rng.range(15, 17),
                        3 => rng.range(5551, 5553),
                        4 => rng.range(0, 70),
                        _ => rng.range(0, left.max(1)),
                    }
                    .min(left);
                    left -= c;
                    s.ops.push(vec![c as i64]);
                }
            }
            s.set_blob("data", data);
            s
        }
        6..=8 => {
            // compressor running checksum under schedules: zlib format or C-API style flags
            let mut s = crate::props_pipe::gen_c02(rng, u64::MAX, tier);
            if rng.chance(1, 25) {
                // a fresh script: the one drawn above may belong to another family (sweeps)
                s = Script::new("C16", "pipe");
                crate::props_pipe::base_cfg(rng, &mut s, true);
                crate::props_pipe::checksum_family(rng, &mut s);
            }
            s.prop = "C16".into();
            s.set("clauses", PC_C02 | PC_C16);
            if rng.chance(1, 2) {
                s.set("zlib", 1);
                if s.c("ctor") == 3 || s.c("ctor") == 1 {
                    s.set("window_bits", 15);
                }
            } else if rng.chance(2, 3) {
                // raw stream with the checksum requested explicitly (TDEFL_COMPUTE_ADLER32)
                s.set("ctor", 4);
                s.set("zlib", rng.chance(1, 3) as i64);
                s.set("window_bits", 15);
                if s.c("level") < 0 {
                    s.set("level", 6);
                }
            }
            s.set("putfail", 0);
            s
        }
        _ => {
            // decoder running checksum: zlib decoding under delivery/grant schedules incl. ring wrap
            let mut s = crate::props_dec::gen_c03(rng, 0, tier);
            s.prop = "C16".into();
            if s.c("zlib") == 0 || s.c("entry") != 0 {
                // regenerate as a zlib core run
                let mut r2 = rng.fork();
                for _ in 0..20 {
                    s = crate::props_dec::gen_c03(&mut r2, 0, tier);
                    if s.c("zlib") != 0 && s.c("entry") == 0 {
                        break;
                    }
                }
                s.prop = "C16".into();
            }
            s.set("adler_probe", 1);
            if rng.chance(1, 3) {
                // calls that stop at a block boundary produce output too
                s.set("stop_bb", 1);
            }
            s
        }
    }
}

pub fn defs() -> Vec<CheckDef> {
    vec![CheckDef {
        id: "C16",
        level: "exploration",
        runs_quick: 250_000,
        runs_thorough: 5_000_000,
        block: 256,
        gen: gen_c16,
        exec,
        rule: "half of the runs: a buffer (lengths around 0, 1, 15..17, 31..33, 63..65, 5551..5553, 65535..65537, > 64 KiB; random / all 0xFF / all 0x00) fed through mz_adler32_oxide, mz_crc32_oxide, mz_adler32, mz_crc32 under a seeded split schedule or a sweep of every split point, each update starting from the previous result, compared after every update with the bytewise RFC 1950 / bitwise CRC-32 definitions; a quarter: compressor runs (pipe scenario) probing CompressorOxide::adler32() after every call; a quarter: zlib decoder runs (dec scenario: flat / ring wrap / budgets) probing DecompressorOxide::adler32() after every call. Executed in the scalar and the simd build with the same seeds; the two batch digests must be equal. non-trivial = at least one split / suspension; distinct = shape fingerprint",
        shrink_cfg: &[],
        shrink_blobs: false,
        assumptions: &["bytewise Adler-32 (mod 65521 per byte) and bitwise reflected CRC-32 (0xEDB88320) written in the harness", "x86-64 only"],
    }]
}
