//! `./check selftest`: validity of the harness-side oracles (DESIGN 2.8). Disagreement = exit 2, never a
//! VIOLATION: these are statements about the harness, not about the repository.

use crate::foreign::{self, GenCfg, Spec};
use crate::refinf::{self, Opts, Verdict};
use crate::rng::Rng;
use crate::zlibffi;

pub fn run(n: u64) -> i32 {
    println!("selftest: system zlib {}", zlibffi::version());
    let mut rng = Rng::new(0x5E1F_7E57);
    let mut bad = 0u64;
    let mut valid = 0u64;
    let mut invalid = 0u64;
    let mut mutated = 0u64;
    let mut mut_agree = 0u64;
    let mut skipped = 0u64;
    for i in 0..n {
        let zlib = i % 2 == 0;
        let target = if i % 200 == 0 { rng.range(40_000, 150_000) } else { rng.range(0, 800) };
        // 1. valid streams: reference inflater == generator ground truth == zlib
        let edge = if i % 17 == 3 { rng.pick(&[32766usize, 32767, 32768, 32769, 65535, 65536, 65537, 255, 256, 257, 4096]) } else { 0 };
        let s = foreign::generate(&mut rng, &GenCfg { zlib, target: if edge > 0 { target.min(2000) } else { target }, spec: Spec::None, max_dist: 32768, edge, alt258: false });
        let r = refinf::inflate(&s.bytes, &Opts::flat(zlib));
        let z = zlibffi::zinflate(&s.bytes, if zlib { 15 } else { -15 }, 1 << 26);
        let ok = r.verdict == Verdict::Valid && r.out == s.plain && r.consumed == s.enc_len && z.ret == zlibffi::Z_STREAM_END && z.out == s.plain && z.total_in == s.enc_len;
        valid += 1;
        if !ok {
            bad += 1;
            if bad < 10 {
                println!("selftest: valid stream {}: refinf {:?} ({} bytes, consumed {}), truth {} bytes / {}; zlib ret {} {} ({} bytes, {} in)", i, r.verdict, r.out.len(), r.consumed, s.plain.len(), s.enc_len, z.ret, z.msg, z.out.len(), z.total_in);
            }
        }
        // every block boundary of the ground truth is one the reference inflater sees
        if r.blocks.len() != s.blocks.len() || r.blocks.iter().zip(s.blocks.iter()).any(|(a, b)| a.start_bit != b.start_bit || a.out_end != b.out_end || a.btype != b.btype) {
            bad += 1;
            if bad < 10 {
                println!("selftest: stream {}: block lists differ", i);
            }
        }
        // 2. grammar-built violations: reference inflater (flat) and zlib both reject
        if i % 4 == 0 {
            let mut spec = foreign::ALL_SPECS[rng.usize_below(foreign::ALL_SPECS.len())];
            if spec.is_zlib() && !zlib {
                spec = Spec::LenNlen;
            }
            let tt = rng.range(0, 500);
            let t = foreign::generate(&mut rng, &GenCfg { zlib, target: tt, spec, max_dist: 32768, edge: 0, alt258: false });
            let r = refinf::inflate(&t.bytes, &Opts::flat(zlib));
            let z = zlibffi::zinflate(&t.bytes, if zlib { 15 } else { -15 }, 1 << 26);
            invalid += 1;
            let r_rejects = matches!(r.verdict, Verdict::Invalid(_));
            let z_rejects = z.ret == zlibffi::Z_DATA_ERROR || z.ret == 2; // 2 = Z_NEED_DICT: preset dictionary demanded
            if !r_rejects || !z_rejects {
                bad += 1;
                if bad < 10 {
                    println!("selftest: spec {:?} stream {}: refinf {:?}, zlib ret {} ({})", spec, i, r.verdict, z.ret, z.msg);
                }
            }
        }
        // 3. mutated streams: same accept / reject / short, same bytes (unless an unspecified construct is met)
        if i % 2 == 1 && !s.bytes.is_empty() {
            let mut m = s.bytes.clone();
            let k = rng.range(1, 3);
            for _ in 0..k {
                let p = rng.usize_below(m.len());
                match rng.below(3) {
                    0 => m[p] ^= 1 << rng.below(8),
                    1 => m[p] = rng.below(256) as u8,
                    _ => {
                        m.truncate(p);
                        if m.is_empty() {
                            m.push(0);
                        }
                    }
                }
            }
            let r = refinf::inflate(&m, &Opts::flat(zlib));
            let z = zlibffi::zinflate(&m, if zlib { 15 } else { -15 }, 8 << 20);
            mutated += 1;
            if r.unspecified || r.verdict == Verdict::TooBig || z.ret == -100 {
                skipped += 1;
                continue;
            }
            let same = match r.verdict {
                Verdict::Valid => z.ret == zlibffi::Z_STREAM_END && z.out == r.out && z.total_in == r.consumed,
                // zlib defers the rejection of an all-zero code-length code until a symbol is needed
                // (inftrees.c returns 0 for "no codes"); no continuation of such a block is valid
                Verdict::Invalid("dyn.cl_incomplete") if r.blocks.last().map_or(false, |b| b.cl_lens.iter().all(|&l| l == 0)) => z.ret == zlibffi::Z_DATA_ERROR || z.ret == zlibffi::Z_OK || z.ret == zlibffi::Z_BUF_ERROR,
                Verdict::Invalid(_) => z.ret == zlibffi::Z_DATA_ERROR || z.ret == 2,
                Verdict::Short => z.ret == zlibffi::Z_OK || z.ret == zlibffi::Z_BUF_ERROR,
                Verdict::TooBig => true,
            };
            // zlib reports a distance "too far back" only when the copy is executed, the reference when it is decoded: same verdict
            if same {
                mut_agree += 1;
            } else {
                bad += 1;
                if bad < 10 {
                    println!("selftest: mutated stream {}: refinf {:?} at bit {} ({} bytes), zlib ret {} {} ({} bytes, in {}) zlib={} hex={}", i, r.verdict, r.at_bit, r.out.len(), z.ret, z.msg, z.out.len(), z.total_in, zlib, crate::json::hex(&m[..m.len().min(80)]));
                }
            }
        }
    }
    // checksum definitions against known values
    let a = refinf::adler32_def(1, b"Wikipedia");
    let c = refinf::crc32_def(0, b"123456789");
    if a != 0x11E6_0398 || c != 0xCBF4_3926 {
        println!("selftest: checksum definitions wrong: adler {:#x} crc {:#x}", a, c);
        bad += 1;
    }
    println!("selftest: {} valid streams, {} grammar-built invalid streams, {} mutated streams ({} agreed, {} skipped as unspecified), {} disagreements", valid, invalid, mutated, mut_agree, skipped, bad);
    if bad > 0 {
        2
    } else {
        0
    }
}
