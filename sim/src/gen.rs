//! Seeded workload generators shared by the scenarios (DESIGN 2.4).

use crate::rng::Rng;

/// Interesting plaintext sizes: small, and values straddling the compressor's thresholds.
pub fn plain_size(rng: &mut Rng, big_pct: u64) -> usize {
    if rng.chance(big_pct, 100) {
        return match rng.below(10) {
            0 => rng.pick(&[31743usize, 31744, 31745, 31746, 32767, 32768, 32769, 63488, 63489, 63490, 95232, 95235]),
            1 => rng.pick(&[65534usize, 65535, 65536, 65537]),
            2 => rng.pick(&[85195usize, 85196, 85197]),
            3 | 4 => rng.range(90_000, 400_000),
            _ => rng.range(20_000, 90_000),
        };
    }
    match rng.below(12) {
        0 => 0,
        1 => rng.range(1, 3),
        2 => rng.pick(&[257usize, 258, 259, 260]),
        3 => rng.pick(&[4095usize, 4096, 4097]),
        4 | 5 => rng.range(600, 6000),
        _ => rng.range(4, 600),
    }
}

/// One segment of plaintext of the given class.
pub fn segment(rng: &mut Rng, class: u64, len: usize, so_far: &[u8]) -> Vec<u8> {
    match class {
        0 => rng.bytes(len), // incompressible
        1 => {
            // alphabet of k symbols
            let k = rng.range(1, 12);
            let a = rng.bytes(k);
            (0..len).map(|_| a[rng.usize_below(k)]).collect()
        }
        2 => {
            // long runs
            let mut v = Vec::with_capacity(len);
            while v.len() < len {
                let b = rng.below(256) as u8;
                let r = match rng.below(4) {
                    0 => rng.range(1, 4),
                    1 => rng.range(257, 260),
                    2 => rng.range(1000, 70000),
                    _ => rng.range(3, 300),
                };
                for _ in 0..r.min(len - v.len()) {
                    v.push(b);
                }
            }
            v
        }
        3 => {
            // text-like order-1 Markov chain over a small vocabulary
            const WORDS: [&[u8]; 16] = [
                b"the ", b"quick ", b"brown ", b"fox ", b"jumps ", b"over ", b"lazy ", b"dog ", b"and ", b"then ", b"compress", b"ion ", b"stream ", b"0123456789", b"\n", b", ",
            ];
            let mut v = Vec::with_capacity(len + 16);
            let mut w = rng.usize_below(16);
            while v.len() < len {
                v.extend_from_slice(WORDS[w]);
                w = if rng.chance(3, 4) { (w * 7 + 3 + rng.usize_below(3)) % 16 } else { rng.usize_below(16) };
            }
            v.truncate(len);
            v
        }
        4 => {
            // sparse short matches: random with a 3..6 byte copy every ~40 bytes (worst case for expansion)
            let mut v: Vec<u8> = Vec::with_capacity(len + 8);
            while v.len() < len {
                let lit = rng.range(20, 60);
                let b = rng.bytes(lit);
                v.extend_from_slice(&b);
                if v.len() > 8 {
                    let l = rng.range(3, 6);
                    let d = rng.range(1, v.len().min(32768));
                    for _ in 0..l {
                        let x = v[v.len() - d];
                        v.push(x);
                    }
                }
            }
            v.truncate(len);
            v
        }
        5 => {
            // planted repeats at a chosen distance relative to everything produced so far
            let hist = so_far.len();
            let mut v: Vec<u8> = Vec::with_capacity(len);
            let d = match rng.below(9) {
                0 => 1,
                1 => rng.range(2, 8),
                2 => rng.range(257, 259),
                3 => rng.range(4095, 4097),
                4 => rng.range(8191, 8193),
                5 => rng.range(16383, 16385),
                6 => rng.range(32767, 32768),
                7 => rng.range(32769, 33000),
                _ => rng.range(300, 32768),
            };
            for i in 0..len {
                let total = hist + i;
                let b = if total >= d && !rng.chance(1, 200) {
                    let p = total - d;
                    if p < hist {
                        so_far[p]
                    } else {
                        v[p - hist]
                    }
                } else {
                    rng.below(256) as u8
                };
                v.push(b);
            }
            v
        }
        6 => vec![0u8; len],
        7 => vec![0xFFu8; len],
        9 => {
            // runs of a two-letter alphabet whose boundaries sit around the 32 KiB dictionary wrap
            // (32768 k + delta, delta in -3..=260) and whose lengths are often multiples of 258
            // the run byte is often 0x00 / 0xFF (what never-written or saturated memory holds)
            let a = match rng.below(4) {
                0 => 0u8,
                1 => 0xFF,
                _ => rng.below(256) as u8,
            };
            let b = a.wrapping_add(1 + rng.below(200) as u8);
            let mut v: Vec<u8> = Vec::with_capacity(len + 600);
            // the first 300 bytes decide what the mirror area of the ring holds (byte 256 is the last mirrored one)
            let head = if rng.chance(3, 5) { rng.range(257, 300) } else { rng.range(1, 300) };
            for i in 0..head.min(len) {
                v.push(if rng.chance(1, 3) || i == 256 { a } else { b });
            }
            while v.len() < len {
                let base = so_far.len() + v.len();
                let next_wrap = (base / 32768 + 1) * 32768;
                // run ends biased to the slots around the end of the mirrored area (ring start + 256 / 257 / 258)
                let delta = if rng.chance(1, 2) { rng.pick(&[256i64, 256, 257, 258, 255, 0, 1, -1, 2, 259]) } else { rng.range(0, 263) as i64 - 3 };
                let end = (next_wrap as i64 + delta) as usize; // exclusive end of the run
                let mut run = if rng.chance(2, 3) { 258 * rng.range(1, 4) } else { rng.range(3, 900) };
                if end < base + run {
                    run = end.saturating_sub(base).max(1);
                }
                // filler up to the start of the run, then the run, then a different byte
                let start = end - run;
                while so_far.len() + v.len() < start && v.len() < len {
                    let x = if rng.chance(1, 2) { b } else { rng.below(256) as u8 };
                    v.push(x);
                }
                for _ in 0..run {
                    v.push(a);
                }
                v.push(b);
            }
            v.truncate(len);
            v
        }
        10 => {
            // nearly incompressible: random bytes with a tunable density of short copies (0.2 % .. 5 %)
            let per_mille = rng.range(2, 50);
            let mut v: Vec<u8> = Vec::with_capacity(len + 300);
            while v.len() < len {
                if v.len() > 300 && rng.chance(per_mille as u64, 1000 * 4) {
                    let l = rng.range(3, 8);
                    let d = rng.range(1, v.len().min(32768));
                    for _ in 0..l {
                        let x = v[v.len() - d];
                        v.push(x);
                    }
                } else {
                    v.push(rng.below(256) as u8);
                }
            }
            v.truncate(len);
            v
        }
        _ => {
            // mixture: alternating short random and short repeated phrases
            let mut v: Vec<u8> = Vec::with_capacity(len + 64);
            let pl = rng.range(3, 40);
            let phrase = rng.bytes(pl);
            while v.len() < len {
                if rng.chance(1, 2) {
                    v.extend_from_slice(&phrase);
                } else {
                    let n = rng.range(1, 30);
                    let b = rng.bytes(n);
                    v.extend_from_slice(&b);
                }
            }
            v.truncate(len);
            v
        }
    }
}

/// Match-free noise in which "lazy-match upgrade chains" straddle the positions where the compressor closes
/// a block on its own (every 31 * 1024 + 1 recorded bytes of match-free data). A chain is a text T placed
/// at position p such that the best earlier match at p + j has length 3 + j (plants T[j .. 2j+3] sit 1-3 KiB
/// before p): a lazy parser defers the match at every step, recording one literal per step, so the block
/// boundary falls into an iteration that leaves a match pending.
pub fn chain_boundary_plain(rng: &mut Rng, nblocks: usize, tail: usize) -> Vec<u8> {
    const B: usize = 31 * 1024 + 1;
    let n = B * nblocks + tail;
    let mut v = rng.bytes(n);
    for m in 1..=nblocks {
        let k = rng.range(3, 12); // steps in the chain
        let t = rng.bytes(2 * k + 4);
        // chain start: the boundary falls on one of its steps (blocks may start a byte or two late)
        let p = m * B - rng.range(0, k + 2).min(m * B);
        if p + t.len() >= n || p < 4000 {
            continue;
        }
        v[p..p + t.len()].copy_from_slice(&t);
        // plants, each between two noise bytes, 1..3 KiB before p, in random order of position
        let mut q = p - rng.range(1200, 3000);
        for j in 0..k {
            let piece = &t[j..2 * j + 3];
            if q + piece.len() + 2 >= p {
                break;
            }
            v[q..q + piece.len()].copy_from_slice(piece);
            q += piece.len() + rng.range(1, 9);
        }
    }
    v
}

/// Symbol-frequency ladders: k byte values whose counts grow geometrically (ratio 1.2 .. 3, Fibonacci included),
/// so that the optimal Huffman code is as deep as the alphabet allows and the compressor's length limiter
/// (15 bits for literal/length and distance codes, 7 for the code-length code) has work to do; the rarest
/// symbols are often placed next to each other (adjacent long codes in the bit writer).
pub fn ladder(rng: &mut Rng, max_len: usize) -> Vec<u8> {
    let k = rng.pick(&[2usize, 3, 8, 9, 10, 15, 16, 17, 18, 19, 20, 24, 30, 40]);
    let ratio = rng.pick(&[1.2f64, 1.4, 1.618, 1.618, 2.0, 2.0, 3.0]);
    let mut syms: Vec<u8> = Vec::new();
    while syms.len() < k {
        let b = rng.below(256) as u8;
        if !syms.contains(&b) {
            syms.push(b);
        }
    }
    let mut counts: Vec<usize> = Vec::new();
    let mut c = 1.0f64;
    let mut total = 0usize;
    for _ in 0..k {
        let n = (c as usize).max(1);
        if total + n > max_len {
            break;
        }
        counts.push(n);
        total += n;
        c *= ratio;
        if rng.chance(1, 6) {
            c += 1.0;
        }
    }
    // body: everything but the rarest few, shuffled
    let rare_n = counts.len().min(rng.range(0, 16));
    let mut body: Vec<u8> = Vec::with_capacity(total);
    for (i, &n) in counts.iter().enumerate().skip(rare_n) {
        for _ in 0..n {
            body.push(syms[i]);
        }
    }
    for i in (1..body.len()).rev() {
        let j = rng.usize_below(i + 1);
        body.swap(i, j);
    }
    // the rarest symbols in one cluster at a random place (or shuffled in as well)
    let mut rare: Vec<u8> = Vec::new();
    for (i, &n) in counts.iter().enumerate().take(rare_n) {
        for _ in 0..n {
            rare.push(syms[i]);
        }
    }
    if rng.chance(1, 3) {
        for b in rare {
            let at = rng.usize_below(body.len() + 1);
            body.insert(at, b);
        }
    } else {
        let at = rng.usize_below(body.len() + 1);
        let tail = body.split_off(at);
        body.extend_from_slice(&rare);
        body.extend_from_slice(&tail);
    }
    body
}

/// Data whose Adler-32 takes a chosen value (a, b) - in particular 0x00000000 (a legal checksum that looks like
/// "none"), 0x00000001 (the value of the empty string: a stream that looks as if nothing had been fed), a low half
/// that lands exactly on the modulus, the largest halves 0xFFF0. Construction: any prefix, 0xFF bytes until the
/// low sum is within one byte of the target, t zero bytes (each adds the low sum to the high sum; t solves the
/// high half through a modular inverse, t < 65521), one final byte. Returns the data; its last byte is the one
/// that makes the low half hit the target.
pub fn adler_target(rng: &mut Rng, ta: u32, tb: u32, prefix_len: usize) -> Vec<u8> {
    const P: u64 = 65521;
    let cls = rng.pick(&[0u64, 0, 3, 6, 7]);
    let mut v = segment(rng, cls, prefix_len, &[]);
    let (mut a, mut b) = (1u64, 0u64);
    for &x in &v {
        a = (a + x as u64) % P;
        b = (b + a) % P;
    }
    let (ta, tb) = (ta as u64 % P, tb as u64 % P);
    // final byte value `last` = ta - a (mod P) must fit a byte and leave a != 0 (for the inverse)
    let mut guard = 0;
    loop {
        let last = (ta + P - a) % P;
        if last <= 255 && a != 0 && guard > 0 {
            break;
        }
        v.push(0xFF);
        a = (a + 255) % P;
        b = (b + a) % P;
        guard += 1;
        if guard > 600 {
            break;
        }
    }
    let last = (ta + P - a) % P;
    // t zeros: b' = b + t*a; then the last byte: a'' = a + last = ta, b'' = b' + ta  ==> t = (tb - ta - b) / a
    let mut inv = 1u64;
    let mut base = a % P;
    let mut e = P - 2;
    while e > 0 {
        if e & 1 == 1 {
            inv = inv * base % P;
        }
        base = base * base % P;
        e >>= 1;
    }
    let t = ((tb + 2 * P - ta - b) % P) * inv % P;
    v.extend(std::iter::repeat(0u8).take(t as usize));
    v.push(last as u8);
    v
}

/// 1..4 concatenated segments.
pub fn plaintext(rng: &mut Rng, total: usize) -> Vec<u8> {
    let nseg = if total < 8 { 1 } else { rng.range(1, 4) };
    let mut v: Vec<u8> = Vec::with_capacity(total);
    for k in 0..nseg {
        let left = total - v.len();
        let len = if k == nseg - 1 { left } else { rng.range(0, left) };
        let class = rng.below(9);
        let seg = segment(rng, class, len, &v);
        v.extend_from_slice(&seg);
    }
    v
}

/// Chunk-size classes for input delivery (DESIGN section 1: 0, 1, 2, 3, small, >= 14, rest).
pub fn chunk(rng: &mut Rng, left: usize) -> usize {
    let c = match rng.below(11) {
        0 => 0,
        1 => 1,
        2 => 2,
        3 => 3,
        4 => rng.range(4, 13),
        5 => rng.range(14, 64),
        6 => rng.range(64, 1500),
        7 => left,
        8 => left / 2,
        9 => rng.pick(&[4096usize, 31744, 31745, 32768, 65536]),
        _ => rng.range(0, left.max(1)),
    };
    c.min(left)
}

/// Output grant classes: 0, 1, 2, 3, 5, < 258, 258/259, large, unlimited (-1).
pub fn grant(rng: &mut Rng) -> i64 {
    match rng.below(12) {
        0 => 0,
        1 => 1,
        2 => 2,
        3 => 3,
        4 => 5,
        5 => rng.range(6, 257) as i64,
        6 => rng.range(258, 259) as i64,
        7 => rng.range(260, 1200) as i64,
        8 => rng.range(1200, 40000) as i64,
        9 => rng.pick(&[256i64, 1024, 4096, 16384, 32767, 32768, 32769]),
        _ => -1,
    }
}

/// A delivery/grant schedule for the core decoder: [[deliver, budget]].
pub fn core_ops(rng: &mut Rng, n_in: usize, style: u64) -> Vec<Vec<i64>> {
    let mut ops = Vec::new();
    let mut left = n_in;
    let max_ops = match style % 4 {
        0 => 3,
        1 => 12,
        2 => 60,
        _ => 400,
    };
    let budgets = (style / 4) % 3; // 0: all unlimited, 1: mixed, 2: mostly tiny
    while ops.len() < max_ops {
        let c = chunk(rng, left);
        left -= c;
        let b = match budgets {
            0 => -1,
            1 => grant(rng),
            _ => {
                if rng.chance(3, 4) {
                    rng.range(0, 5) as i64
                } else {
                    grant(rng)
                }
            }
        };
        ops.push(vec![c as i64, b]);
        if left == 0 && rng.chance(1, 3) {
            break;
        }
    }
    ops
}

/// Schedule for the streaming wrappers: [[deliver, out_len, flush]] with flush drawn from `flushes`.
pub fn stream_ops(rng: &mut Rng, n_in: usize, style: u64, flushes: &[i64]) -> Vec<Vec<i64>> {
    let mut ops = Vec::new();
    let mut left = n_in;
    let max_ops = match style % 4 {
        0 => 3,
        1 => 12,
        2 => 60,
        _ => 300,
    };
    while ops.len() < max_ops {
        let c = chunk(rng, left);
        left -= c;
        let o = match rng.below(10) {
            0 => 0,
            1 => 1,
            2 => 3,
            3 => rng.range(4, 30),
            4 => rng.range(30, 300),
            5 => rng.range(300, 5000),
            6 => rng.range(5000, 70000),
            // grants that divide (or equal, or straddle) the 32 KiB window of the streaming wrappers
            7 => rng.pick(&[256usize, 1024, 4096, 8192, 16384, 32767, 32768, 32769, 65536]),
            _ => rng.range(1, 1000),
        };
        let f = flushes[rng.usize_below(flushes.len())];
        ops.push(vec![c as i64, o as i64, f]);
        if left == 0 && rng.chance(1, 3) {
            break;
        }
    }
    ops
}

/// Compressible data that fills the compressor's LZ code buffer (so that a block is closed because the buffer is
/// tight, not by the 31 KiB rule) and in which about half of the parser steps near any given fill level are of the
/// fattest kind a lazy parser has: a short match at p is superseded at p + 1 by a match of >= 128 bytes (one step
/// records a literal AND a long match). Groups of [word soup | plants "x L0 L1 z" | units "x L"], L a fixed
/// 130-byte block, x cycling through all byte values (a repeat of the same x is > 32 KiB back).
pub fn fat_step_plain(rng: &mut Rng, groups: usize) -> Vec<u8> {
    let l = rng.bytes(130);
    let words: Vec<Vec<u8>> = (0..256).map(|_| { let n = rng.range(3, 8); rng.bytes(n) }).collect();
    let mut v: Vec<u8> = Vec::with_capacity(groups * 6600 + 200);
    v.extend_from_slice(&l);
    let mut x = 0u8;
    for _ in 0..groups {
        let sl = rng.range(150, 450);
        let start = v.len();
        while v.len() - start < sl {
            let w = &words[rng.usize_below(256)];
            v.extend_from_slice(w);
        }
        let k = rng.range(30, 50);
        for j in 0..k {
            let xx = x.wrapping_add(j as u8);
            v.extend_from_slice(&[xx, l[0], l[1], l[2] ^ 0x55]);
        }
        for _ in 0..k {
            v.push(x);
            v.extend_from_slice(&l);
            x = x.wrapping_add(1);
        }
    }
    v
}

/// One of the special Adler-32 targets, as (low half, high half).
pub fn adler_special(rng: &mut Rng) -> (u32, u32) {
    match rng.below(8) {
        0 | 1 | 2 => (0, 0),
        3 | 4 => (1, 0),
        5 => (0, rng.below(65521) as u32),
        6 => (rng.below(65521) as u32, 0),
        _ => (65520, 65520),
    }
}

#[cfg(test)]
mod tests {
    use super::*;
    #[test]
    fn adler_target_hits() {
        let mut r = Rng::new(7);
        for _ in 0..200 {
            let (a, b) = adler_special(&mut r);
            let n = r.range(0, 900);
            let d = adler_target(&mut r, a, b, n);
            let got = crate::refinf::adler32_def(1, &d);
            assert_eq!(got, (b % 65521) << 16 | (a % 65521), "target ({}, {}) len {}", a, b, d.len());
        }
    }
}
