//! Minimal JSON value, writer and parser (replay files, evidence, known findings).

use std::collections::BTreeMap;
use std::fmt::Write;

#[derive(Clone, Debug, PartialEq)]
pub enum J {
    Null,
    Bool(bool),
    Int(i64),
    Num(f64),
    Str(String),
    Arr(Vec<J>),
    Obj(Vec<(String, J)>),
}

impl J {
    pub fn obj() -> J {
        J::Obj(Vec::new())
    }
    pub fn set(&mut self, k: &str, v: J) -> &mut J {
        if let J::Obj(o) = self {
            if let Some(e) = o.iter_mut().find(|(kk, _)| kk == k) {
                e.1 = v;
            } else {
                o.push((k.to_string(), v));
            }
        }
        self
    }
    pub fn get(&self, k: &str) -> Option<&J> {
        if let J::Obj(o) = self {
            o.iter().find(|(kk, _)| kk == k).map(|(_, v)| v)
        } else {
            None
        }
    }
    pub fn as_i64(&self) -> Option<i64> {
        match self {
            J::Int(i) => Some(*i),
            J::Num(f) => Some(*f as i64),
            _ => None,
        }
    }
    pub fn as_str(&self) -> Option<&str> {
        if let J::Str(s) = self {
            Some(s)
        } else {
            None
        }
    }
    pub fn as_arr(&self) -> Option<&Vec<J>> {
        if let J::Arr(a) = self {
            Some(a)
        } else {
            None
        }
    }
    pub fn s(x: &str) -> J {
        J::Str(x.to_string())
    }
    pub fn from_map(m: &BTreeMap<String, u64>) -> J {
        J::Obj(m.iter().map(|(k, v)| (k.clone(), J::Int(*v as i64))).collect())
    }
    pub fn to_string(&self) -> String {
        let mut s = String::new();
        self.write(&mut s, 0, false);
        s
    }
    pub fn pretty(&self) -> String {
        let mut s = String::new();
        self.write(&mut s, 0, true);
        s.push('\n');
        s
    }
    fn write(&self, out: &mut String, ind: usize, pretty: bool) {
        match self {
            J::Null => out.push_str("null"),
            J::Bool(b) => out.push_str(if *b { "true" } else { "false" }),
            J::Int(i) => {
                let _ = write!(out, "{}", i);
            }
            J::Num(f) => {
                if f.is_finite() {
                    let t = format!("{}", f);
                    out.push_str(&t);
                    if !t.contains('.') && !t.contains('e') {
                        out.push_str(".0");
                    }
                } else {
                    out.push_str("0.0");
                }
            }
            J::Str(s) => esc(out, s),
            J::Arr(a) => {
                let simple = a.iter().all(|x| matches!(x, J::Int(_) | J::Num(_) | J::Bool(_) | J::Null));
                out.push('[');
                for (i, x) in a.iter().enumerate() {
                    if i > 0 {
                        out.push(',');
                    }
                    if pretty && !simple {
                        out.push('\n');
                        for _ in 0..ind + 1 {
                            out.push(' ');
                        }
                    }
                    x.write(out, ind + 1, pretty);
                }
                if pretty && !simple && !a.is_empty() {
                    out.push('\n');
                    for _ in 0..ind {
                        out.push(' ');
                    }
                }
                out.push(']');
            }
            J::Obj(o) => {
                out.push('{');
                for (i, (k, v)) in o.iter().enumerate() {
                    if i > 0 {
                        out.push(',');
                    }
                    if pretty {
                        out.push('\n');
                        for _ in 0..ind + 1 {
                            out.push(' ');
                        }
                    }
                    esc(out, k);
                    out.push(':');
                    if pretty {
                        out.push(' ');
                    }
                    v.write(out, ind + 1, pretty);
                }
                if pretty && !o.is_empty() {
                    out.push('\n');
                    for _ in 0..ind {
                        out.push(' ');
                    }
                }
                out.push('}');
            }
        }
    }
}

fn esc(out: &mut String, s: &str) {
    out.push('"');
    for c in s.chars() {
        match c {
            '"' => out.push_str("\\\""),
            '\\' => out.push_str("\\\\"),
            '\n' => out.push_str("\\n"),
            '\r' => out.push_str("\\r"),
            '\t' => out.push_str("\\t"),
            c if (c as u32) < 0x20 => {
                let _ = write!(out, "\\u{:04x}", c as u32);
            }
            c => out.push(c),
        }
    }
    out.push('"');
}

pub fn parse(s: &str) -> Result<J, String> {
    let b = s.as_bytes();
    let mut p = 0usize;
    let v = val(b, &mut p)?;
    ws(b, &mut p);
    if p != b.len() {
        return Err(format!("trailing data at {}", p));
    }
    Ok(v)
}

fn ws(b: &[u8], p: &mut usize) {
    while *p < b.len() && matches!(b[*p], b' ' | b'\n' | b'\r' | b'\t') {
        *p += 1;
    }
}

fn val(b: &[u8], p: &mut usize) -> Result<J, String> {
    ws(b, p);
    if *p >= b.len() {
        return Err("eof".into());
    }
    match b[*p] {
        b'{' => {
            *p += 1;
            let mut o = Vec::new();
            ws(b, p);
            if *p < b.len() && b[*p] == b'}' {
                *p += 1;
                return Ok(J::Obj(o));
            }
            loop {
                ws(b, p);
                let k = match val(b, p)? {
                    J::Str(s) => s,
                    _ => return Err("key".into()),
                };
                ws(b, p);
                if *p >= b.len() || b[*p] != b':' {
                    return Err(format!("expected : at {}", p));
                }
                *p += 1;
                let v = val(b, p)?;
                o.push((k, v));
                ws(b, p);
                if *p < b.len() && b[*p] == b',' {
                    *p += 1;
                    continue;
                }
                if *p < b.len() && b[*p] == b'}' {
                    *p += 1;
                    return Ok(J::Obj(o));
                }
                return Err(format!("expected , or }} at {}", p));
            }
        }
        b'[' => {
            *p += 1;
            let mut a = Vec::new();
            ws(b, p);
            if *p < b.len() && b[*p] == b']' {
                *p += 1;
                return Ok(J::Arr(a));
            }
            loop {
                a.push(val(b, p)?);
                ws(b, p);
                if *p < b.len() && b[*p] == b',' {
                    *p += 1;
                    continue;
                }
                if *p < b.len() && b[*p] == b']' {
                    *p += 1;
                    return Ok(J::Arr(a));
                }
                return Err(format!("expected , or ] at {}", p));
            }
        }
        b'"' => {
            *p += 1;
            let mut s = String::new();
            while *p < b.len() {
                let c = b[*p];
                *p += 1;
                match c {
                    b'"' => return Ok(J::Str(s)),
                    b'\\' => {
                        if *p >= b.len() {
                            break;
                        }
                        let e = b[*p];
                        *p += 1;
                        match e {
                            b'n' => s.push('\n'),
                            b'r' => s.push('\r'),
                            b't' => s.push('\t'),
                            b'b' => s.push('\u{8}'),
                            b'f' => s.push('\u{c}'),
                            b'u' => {
                                let h = std::str::from_utf8(&b[*p..*p + 4]).map_err(|e| e.to_string())?;
                                let cp = u32::from_str_radix(h, 16).map_err(|e| e.to_string())?;
                                *p += 4;
                                s.push(char::from_u32(cp).unwrap_or('?'));
                            }
                            x => s.push(x as char),
                        }
                    }
                    _ => {
                        // copy raw utf-8 bytes
                        let start = *p - 1;
                        let mut end = *p;
                        while end < b.len() && b[end] != b'"' && b[end] != b'\\' {
                            end += 1;
                        }
                        s.push_str(std::str::from_utf8(&b[start..end]).map_err(|e| e.to_string())?);
                        *p = end;
                    }
                }
            }
            Err("unterminated string".into())
        }
        b't' if b[*p..].starts_with(b"true") => {
            *p += 4;
            Ok(J::Bool(true))
        }
        b'f' if b[*p..].starts_with(b"false") => {
            *p += 5;
            Ok(J::Bool(false))
        }
        b'n' if b[*p..].starts_with(b"null") => {
            *p += 4;
            Ok(J::Null)
        }
        _ => {
            let start = *p;
            while *p < b.len() && matches!(b[*p], b'0'..=b'9' | b'-' | b'+' | b'.' | b'e' | b'E') {
                *p += 1;
            }
            let t = std::str::from_utf8(&b[start..*p]).unwrap();
            if let Ok(i) = t.parse::<i64>() {
                Ok(J::Int(i))
            } else if let Ok(f) = t.parse::<f64>() {
                Ok(J::Num(f))
            } else {
                Err(format!("bad token at {}", start))
            }
        }
    }
}

pub fn hex(b: &[u8]) -> String {
    const H: &[u8; 16] = b"0123456789abcdef";
    let mut s = String::with_capacity(b.len() * 2);
    for &x in b {
        s.push(H[(x >> 4) as usize] as char);
        s.push(H[(x & 15) as usize] as char);
    }
    s
}

pub fn unhex(s: &str) -> Result<Vec<u8>, String> {
    let b = s.as_bytes();
    if b.len() % 2 != 0 {
        return Err("odd hex".into());
    }
    let d = |c: u8| -> Result<u8, String> {
        match c {
            b'0'..=b'9' => Ok(c - b'0'),
            b'a'..=b'f' => Ok(c - b'a' + 10),
            b'A'..=b'F' => Ok(c - b'A' + 10),
            _ => Err("bad hex".into()),
        }
    };
    let mut v = Vec::with_capacity(b.len() / 2);
    for i in (0..b.len()).step_by(2) {
        v.push((d(b[i])? << 4) | d(b[i + 1])?);
    }
    Ok(v)
}
