//! `dec` scenario: source -> channel (faults) -> REAL decoder under a delivery / grant schedule -> sink.
//! Serves C03, C04, C06, C07, C08, C09(dec side). Oracles: reference inflater, one-call baseline of the
//! same real decoder, canaries.

use crate::refinf::{self, Opts, Res, Verdict};
use crate::rng::{Hasher, Rng};
use crate::runner::RunInfo;
use crate::script::{viol, Script, Stats, Violation};
use miniz_oxide::inflate::core::inflate_flags::*;
use miniz_oxide::inflate::core::{decompress_with_limit, DecompressorOxide};
use miniz_oxide::inflate::stream::{inflate, InflateState};
use miniz_oxide::inflate::TINFLStatus;
use miniz_oxide::{DataFormat, MZError, MZFlush, MZStatus};

// clause groups (cfg "clauses")
pub const CL_C03: i64 = 1;
pub const CL_C04: i64 = 2;
pub const CL_C06: i64 = 4;
pub const CL_C07: i64 = 8;
pub const CL_C08: i64 = 16;
pub const CL_C09: i64 = 32;

// fault kinds
pub const F_TRUNC: i64 = 1;
pub const F_FLIP: i64 = 2;
pub const F_SET: i64 = 3;
pub const F_INS: i64 = 4;
pub const F_DEL: i64 = 5;
pub const F_DUP: i64 = 6;
pub const F_SWAP: i64 = 7;
pub const F_TAIL: i64 = 8;

pub fn trace() -> bool {
    static T: std::sync::OnceLock<bool> = std::sync::OnceLock::new();
    *T.get_or_init(|| std::env::var("MZSIM_TRACE").is_ok())
}

pub fn fault_name(k: i64) -> &'static str {
    match k {
        F_TRUNC => "trunc",
        F_FLIP => "flip",
        F_SET => "set",
        F_INS => "ins",
        F_DEL => "del",
        F_DUP => "dup",
        F_SWAP => "swap",
        F_TAIL => "tail",
        _ => "other",
    }
}

fn pseudo_bytes(seed: u64, n: usize, kind: i64) -> Vec<u8> {
    match kind {
        1 => vec![0u8; n],
        2 => vec![0xFFu8; n],
        3 => {
            // looks like another zlib header + stored block
            let pat = [0x78u8, 0x9C, 0x01, 0x02, 0x00, 0xFD, 0xFF, 0x41, 0x42];
            (0..n).map(|i| pat[i % pat.len()]).collect()
        }
        _ => Rng::new(seed).bytes(n),
    }
}

/// Apply channel faults to the stream. Returns the mutated bytes and how many faults really changed
/// something (fired).
pub fn apply_faults(s: &[u8], faults: &[Vec<i64>], st: &mut Stats) -> Vec<u8> {
    let mut m = s.to_vec();
    for f in faults {
        let k = f[0];
        let a = f.get(1).copied().unwrap_or(0).max(0) as usize;
        let b = f.get(2).copied().unwrap_or(0).max(0) as usize;
        let c = f.get(3).copied().unwrap_or(0);
        let before = m.len();
        let mut fired = false;
        match k {
            F_TRUNC => {
                if a < m.len() {
                    m.truncate(a);
                    fired = true;
                }
            }
            F_FLIP => {
                if a / 8 < m.len() {
                    m[a / 8] ^= 1 << (a % 8);
                    fired = true;
                }
            }
            F_SET => {
                if a < m.len() && m[a] != b as u8 {
                    m[a] = b as u8;
                    fired = true;
                }
            }
            F_INS => {
                let off = a.min(m.len());
                let ins = pseudo_bytes(c as u64, b, 0);
                if !ins.is_empty() {
                    let tail = m.split_off(off);
                    m.extend_from_slice(&ins);
                    m.extend_from_slice(&tail);
                    fired = true;
                }
            }
            F_DEL => {
                if a < m.len() && b > 0 {
                    let end = (a + b).min(m.len());
                    m.drain(a..end);
                    fired = true;
                }
            }
            F_DUP => {
                if a < m.len() && b > 0 {
                    let end = (a + b).min(m.len());
                    let seg = m[a..end].to_vec();
                    let tail = m.split_off(end);
                    m.extend_from_slice(&seg);
                    m.extend_from_slice(&tail);
                    fired = true;
                }
            }
            F_SWAP => {
                // swap spans [a, a+len) and [b, b+len), len = c
                let len = c.max(0) as usize;
                let (lo, hi) = if a <= b { (a, b) } else { (b, a) };
                if len > 0 && lo + len <= hi && hi + len <= m.len() {
                    for i in 0..len {
                        m.swap(lo + i, hi + i);
                    }
                    fired = true;
                }
            }
            F_TAIL => {
                // a = seed, b = len, c = kind
                let t = pseudo_bytes(a as u64, b, c);
                if !t.is_empty() {
                    m.extend_from_slice(&t);
                    fired = true;
                }
            }
            _ => {}
        }
        let _ = before;
        if fired {
            st.inc(&format!("fault.{}", fault_name(k)));
        }
    }
    m
}

pub fn ring_pattern(seed: u64, n: usize) -> Vec<u8> {
    // non-zero seeded pattern
    let mut r = Rng::new(seed ^ 0x5151_5151);
    let mut v = r.bytes(n);
    for b in v.iter_mut() {
        if *b == 0 {
            *b = 0xA5;
        }
    }
    v
}

#[derive(Clone, Copy, PartialEq, Eq, Debug)]
pub enum Term {
    Done,
    Failed,
    AdlerMismatch,
    BadParam,
    CannotProgress,
    /// NeedsMoreInput with everything delivered (caller kept announcing more input)
    Starved,
    /// flat buffer completely full
    OutFull,
    /// streaming wrapper: Err(Buf) with nothing more to supply
    BufEnd,
    /// streaming wrapper: Err(Stream) / Err(Param)
    Proto,
}

pub struct DecRun {
    pub term: Term,
    pub out: Vec<u8>,
    pub consumed: usize,
    pub suspensions: u32,
    pub calls: u32,
    pub hash: u64,
    pub saw_failed_call: bool,
    pub adler: Option<u32>,
}

fn state_name(r: &DecompressorOxide) -> String {
    // serde seam (DESIGN section 1): the struct is serialised as an array whose first element is the
    // unit variant name of `state`.
    match rmp_serde::to_vec(r) {
        Ok(v) if v.len() > 4 && (v[3] & 0xE0) == 0xA0 => {
            let n = (v[3] & 0x1F) as usize;
            String::from_utf8_lossy(&v[4..4 + n]).into_owned()
        }
        _ => "?".to_string(),
    }
}

pub struct CoreCfg<'a> {
    pub zlib: bool,
    pub ring: Option<usize>,
    pub ring_init: &'a [u8],
    pub flat_cap: usize,
    /// 0: flag iff more to deliver, 1: always, 2: never
    pub hasmore: i64,
    pub extra_flags: u32,
    pub canary: bool,
    pub probe: bool,
    /// expected output (model) for canary content check; may be shorter than what gets produced
    pub expect: &'a [u8],
    pub expect_exact: bool,
    pub tail_cap: usize,
    pub clause_prefix: &'a str,
    /// crash/restart: after call number k (1-based) replace the decoder by a snapshot copy of kind
    /// 1 = Clone, 2 = rmp-serde round trip
    pub snap: Option<(u32, i64)>,
    /// C16: compare DecompressorOxide::adler32() with the bytewise definition after every call
    pub adler_probe: bool,
    /// C06: after completion a further call consumes nothing and reports completion again
    pub post_done: bool,
    /// object reuse: before the run proper the same decoder object is driven over an earlier stream
    /// (valid, corrupt or abandoned mid-way) and re-initialised with `init()`
    pub prelude: Option<Prelude<'a>>,
}

#[derive(Clone, Copy)]
pub struct Prelude<'a> {
    pub bytes: &'a [u8],
    pub zlib: bool,
    pub chunk: usize,
    pub max_calls: u32,
    /// reset variant for the streaming wrapper: 0 reset(fmt) 1 ZeroReset 2 MinReset 3 FullReset(fmt)
    pub policy: i64,
}

pub fn prelude_of(s: &Script) -> Option<Prelude<'_>> {
    if s.c("prelude") == 0 {
        return None;
    }
    Some(Prelude { bytes: s.blob("prelude"), zlib: s.c("prelude_zlib") != 0, chunk: s.c_or("prelude_chunk", 1 << 20).max(1) as usize, max_calls: s.c_or("prelude_calls", 1000).max(1) as u32, policy: s.c("prelude_policy") })
}

/// Drive `r` over an earlier stream (into a private 32 KiB ring) and re-initialise it.
fn run_prelude_core(r: &mut DecompressorOxide, p: &Prelude, st: &mut Stats) {
    let mut ring = vec![0u8; 32768];
    let mut pos = 0usize;
    let mut opos = 0usize;
    let base = if p.zlib { TINFL_FLAG_PARSE_ZLIB_HEADER } else { 0 };
    for _ in 0..p.max_calls {
        let end = (pos + p.chunk).min(p.bytes.len());
        let flags = base | if end < p.bytes.len() { TINFL_FLAG_HAS_MORE_INPUT } else { 0 };
        let (s, c, w) = decompress_with_limit(r, &p.bytes[pos..end], &mut ring, opos, usize::MAX, flags);
        st.inc("steps");
        pos += c.min(end - pos);
        opos = (opos + w) & 32767;
        match s {
            TINFLStatus::NeedsMoreInput | TINFLStatus::HasMoreOutput | TINFLStatus::BlockBoundary => {
                if s == TINFLStatus::NeedsMoreInput && end == p.bytes.len() {
                    break;
                }
            }
            _ => break,
        }
    }
    r.init();
    st.inc("probe.decoder_reused_after_init");
}

/// Drive the core decoder over `m` with the schedule `ops` = [[deliver, budget], ...]; budget < 0 means
/// unlimited. After the ops are exhausted a canonical tail delivers everything with unlimited budget.
pub fn run_core(m: &[u8], cfg: &CoreCfg, ops: &[Vec<i64>], st: &mut Stats) -> Result<DecRun, Violation> {
    let mut r = DecompressorOxide::new();
    if let Some(p) = &cfg.prelude {
        run_prelude_core(&mut r, p, st);
    }
    let n = m.len();
    let mut out: Vec<u8>;
    let mask;
    match cfg.ring {
        Some(sz) => {
            out = cfg.ring_init.to_vec();
            debug_assert_eq!(out.len(), sz);
            mask = sz - 1;
        }
        None => {
            out = ring_pattern(0x77, cfg.flat_cap.min(4096));
            // cheap pattern for large buffers: repeat the 4K pattern
            if cfg.flat_cap > out.len() {
                let base = out.clone();
                while out.len() < cfg.flat_cap {
                    let k = (cfg.flat_cap - out.len()).min(base.len());
                    out.extend_from_slice(&base[..k]);
                }
            }
            mask = usize::MAX;
        }
    }
    let mut shadow: Vec<u8> = if cfg.canary { out.clone() } else { Vec::new() };
    let mut base_flags = cfg.extra_flags;
    if cfg.zlib {
        base_flags |= TINFL_FLAG_PARSE_ZLIB_HEADER;
    }
    if cfg.ring.is_none() {
        base_flags |= TINFL_FLAG_USING_NON_WRAPPING_OUTPUT_BUF;
    }
    let mut delivered = 0usize;
    let mut consumed = 0usize;
    let mut out_pos = 0usize;
    let mut sink: Vec<u8> = Vec::new();
    let mut h = Hasher::new();
    let mut opi = 0usize;
    let mut calls = 0u32;
    let mut tail_calls = 0usize;
    let mut susp = 0u32;
    let mut saw_failed = false;
    let mut running_adler = 1u32;
    let cp = cfg.clause_prefix;
    let term;
    loop {
        let (dl, budget) = if opi < ops.len() {
            let o = &ops[opi];
            (o[0].max(0) as usize, if o.len() < 2 || o[1] < 0 { usize::MAX } else { o[1] as usize })
        } else {
            tail_calls += 1;
            if tail_calls > cfg.tail_cap {
                return viol(&format!("{}.liveness", cp), format!("driver loop did not terminate within {} tail calls (consumed {} of {}, produced {})", cfg.tail_cap, consumed, n, sink.len()));
            }
            (n, usize::MAX)
        };
        opi += 1;
        delivered = (delivered + dl).min(n);
        let has_more = match cfg.hasmore {
            0 => delivered < n,
            1 => true,
            _ => false,
        };
        let flags = base_flags | if has_more { TINFL_FLAG_HAS_MORE_INPUT } else { 0 };
        let inb = &m[consumed..delivered];
        let (s, c, w) = decompress_with_limit(&mut r, inb, &mut out, out_pos, budget, flags);
        calls += 1;
        st.inc("calls");
        st.inc("steps");
        if trace() {
            eprintln!("  core call {}: in {} out_pos {} budget {} flags {:#x} -> {:?} consumed {} written {}", calls, inb.len(), out_pos, budget as i64, flags, s, c, w);
        }
        h.u(s as i32 as u64);
        h.u(c as u64);
        h.u(w as u64);
        let region = budget.min(out.len() - out_pos);
        if c > inb.len() {
            return viol(&format!("{}.consumed_le_offered", cp), format!("call {}: consumed {} > offered {}", calls, c, inb.len()));
        }
        if w > region {
            return viol(&format!("{}.written_le_granted", cp), format!("call {}: written {} > granted {}", calls, w, region));
        }
        if cfg.canary {
            // every byte outside [out_pos, out_pos + w) unchanged
            if out[..out_pos] != shadow[..out_pos] || out[out_pos + w..] != shadow[out_pos + w..] {
                let idx = (0..out.len()).find(|&i| (i < out_pos || i >= out_pos + w) && out[i] != shadow[i]).unwrap_or(0);
                return viol(
                    "C08.canary",
                    format!("call {}: byte {} outside granted [{} , {}+{}) (budget {}, slice {}) changed from {:#04x} to {:#04x}", calls, idx, out_pos, out_pos, w, budget, out.len(), shadow[idx], out[idx]),
                );
            }
            shadow[out_pos..out_pos + w].copy_from_slice(&out[out_pos..out_pos + w]);
            // bytes inside equal the model's next bytes
            let so = sink.len();
            let cmp_n = w.min(cfg.expect.len().saturating_sub(so));
            if out[out_pos..out_pos + cmp_n] != cfg.expect[so..so + cmp_n] {
                return viol("C08.content", format!("call {}: written bytes differ from the model at output offset {}", calls, so));
            }
            if s == TINFLStatus::HasMoreOutput && w != region {
                return viol("C08.has_more_output_truthful", format!("call {}: HasMoreOutput but only {} of {} granted bytes written", calls, w, region));
            }
            if s == TINFLStatus::NeedsMoreInput && c != inb.len() {
                return viol("C08.needs_more_input_truthful", format!("call {}: NeedsMoreInput but consumed {} of {}", calls, c, inb.len()));
            }
        }
        sink.extend_from_slice(&out[out_pos..out_pos + w]);
        consumed += c;
        out_pos = if cfg.ring.is_some() { (out_pos + w) & mask } else { out_pos + w };
        if cfg.adler_probe && cfg.zlib && (cfg.extra_flags & TINFL_FLAG_IGNORE_ADLER32) == 0 && (s as i32) >= 0 {
            running_adler = refinf::adler32_def(running_adler, &sink[sink.len() - w..]);
            if let Some(a) = r.adler32() {
                if a != running_adler {
                    return viol("C16.decoder_running_adler", format!("after call {} ({:?}): DecompressorOxide::adler32() = {:#010x}, Adler-32 of the {} bytes produced so far = {:#010x}", calls, s, a, sink.len(), running_adler));
                }
                st.inc("probe.decoder_adler_probes");
            }
        }
        if let Some((k, kind)) = cfg.snap {
            if calls == k {
                // the node is killed here and restarted from what was "durable"
                let restored = match kind {
                    2 => {
                        let img = rmp_serde::to_vec(&r).expect("HARNESS: serialise");
                        let back: DecompressorOxide = rmp_serde::from_slice(&img).expect("HARNESS: deserialise");
                        back
                    }
                    // the three ways std offers to copy a Clone value (a function of the script only): clone(),
                    // clone_from() into a new object, clone_from() into one that has decoded something else
                    _ => match (m.len() + k as usize) % 3 {
                        0 => r.clone(),
                        1 => {
                            let mut d = DecompressorOxide::new();
                            d.clone_from(&r);
                            st.inc("fault.crash_restart_clone_from");
                            d
                        }
                        _ => {
                            let mut d = DecompressorOxide::new();
                            let mut scratch = [0u8; 64];
                            let _ = miniz_oxide::inflate::core::decompress(&mut d, &[0x4b, 0x4c, 0x44, 0x05], &mut scratch, 0, TINFL_FLAG_USING_NON_WRAPPING_OUTPUT_BUF | TINFL_FLAG_HAS_MORE_INPUT);
                            d.clone_from(&r);
                            st.inc("fault.crash_restart_clone_from");
                            d
                        }
                    },
                };
                drop(r);
                r = restored;
                st.inc(if kind == 2 { "fault.crash_restart_serde" } else { "fault.crash_restart_clone" });
                if cfg.probe && calls <= 64 {
                    st.inc(&format!("probe.snapshot_in.{}", state_name(&r)));
                }
            }
        }
        if cfg.probe && calls <= 64 {
            let name = state_name(&r);
            let exit = match s {
                TINFLStatus::NeedsMoreInput => "in",
                TINFLStatus::HasMoreOutput => "out",
                TINFLStatus::Done => "done",
                TINFLStatus::BlockBoundary => "bb",
                _ => "fail",
            };
            st.inc(&format!("probe.susp.{}.{}", name, exit));
        }
        match s {
            TINFLStatus::Done => {
                term = Term::Done;
                break;
            }
            TINFLStatus::Failed => {
                saw_failed = true;
                term = Term::Failed;
                break;
            }
            TINFLStatus::Adler32Mismatch => {
                saw_failed = true;
                term = Term::AdlerMismatch;
                break;
            }
            TINFLStatus::BadParam => {
                saw_failed = true;
                term = Term::BadParam;
                break;
            }
            TINFLStatus::FailedCannotMakeProgress => {
                if has_more {
                    return viol(&format!("{}.cannot_progress_with_more_flag", cp), format!("call {}: FailedCannotMakeProgress although TINFL_FLAG_HAS_MORE_INPUT was set", calls));
                }
                // Continuing after this status would mean the caller lied about "no more input";
                // that is outside every property's premise, so it is terminal here.
                term = Term::CannotProgress;
                break;
            }
            TINFLStatus::NeedsMoreInput => {
                if !has_more {
                    return viol(&format!("{}.needs_more_without_flag", cp), format!("call {}: NeedsMoreInput although the caller said there is no more input", calls));
                }
                if delivered == n && opi >= ops.len() {
                    term = Term::Starved;
                    break;
                }
                susp += 1;
            }
            TINFLStatus::HasMoreOutput => {
                if cfg.ring.is_none() && out_pos == out.len() {
                    term = Term::OutFull;
                    break;
                }
                susp += 1;
            }
            _ => {
                susp += 1;
            }
        }
    }
    if cfg.post_done && term == Term::Done {
        let flags = base_flags;
        let rest = &m[consumed..];
        let op2 = out_pos.min(out.len());
        let (s2, c2, w2) = decompress_with_limit(&mut r, rest, &mut out, op2, usize::MAX, flags);
        if s2 != TINFLStatus::Done || c2 != 0 || w2 != 0 {
            return viol("C06.nothing_consumed_after_end", format!("call after completion with {} further input bytes: {:?} consumed {} written {}", rest.len(), s2, c2, w2));
        }
    }
    h.bytes(&sink);
    h.u(consumed as u64);
    let adler = r.adler32();
    Ok(DecRun { term, out: sink, consumed, suspensions: susp, calls, hash: h.0, saw_failed_call: saw_failed, adler })
}

fn flush_of(v: i64) -> MZFlush {
    match v {
        1 => MZFlush::Partial,
        2 => MZFlush::Sync,
        3 => MZFlush::Full,
        4 => MZFlush::Finish,
        5 => MZFlush::Block,
        _ => MZFlush::None,
    }
}

pub fn mz_code(r: &Result<MZStatus, MZError>) -> i32 {
    match r {
        Ok(s) => *s as i32,
        Err(e) => *e as i32,
    }
}

/// Legal driver of the streaming wrapper: ops = [[deliver, out_len, flush]]; flush is taken from
/// {None, Partial, Sync, Block} until everything is delivered; `finish_tail` switches to Finish once all
/// input has been delivered (and keeps it).
pub fn run_inflate(m: &[u8], fmt: DataFormat, ops: &[Vec<i64>], finish_tail: bool, first_finish: bool, tail_cap: usize, st: &mut Stats, cp: &str) -> Result<DecRun, Violation> {
    run_inflate_snap(m, fmt, ops, finish_tail, first_finish, tail_cap, st, cp, None, None)
}

/// An InflateState that has been used for an earlier stream and reset with the given policy.
pub fn reused_inflate_state(fmt: DataFormat, p: &Prelude, st: &mut Stats) -> Box<InflateState> {
    use miniz_oxide::inflate::stream::{FullReset, MinReset, ZeroReset};
    // MinReset/ZeroReset keep the data format, so the earlier stream is read in the format of the run proper
    let pre_fmt = if p.policy == 1 || p.policy == 2 { fmt } else if p.zlib { DataFormat::Zlib } else { DataFormat::Raw };
    let mut state = InflateState::new_boxed(pre_fmt);
    let mut pos = 0usize;
    let mut out = vec![0u8; 1 + (p.chunk % 5000)];
    for _ in 0..p.max_calls {
        let end = (pos + p.chunk).min(p.bytes.len());
        let res = inflate(&mut state, &p.bytes[pos..end], &mut out, MZFlush::None);
        st.inc("steps");
        pos += res.bytes_consumed.min(end - pos);
        match res.status {
            Ok(MZStatus::Ok) => {}
            Err(MZError::Buf) if end < p.bytes.len() => {}
            _ => break,
        }
    }
    match p.policy {
        1 => state.reset_as(ZeroReset),
        2 => state.reset_as(MinReset),
        3 => state.reset_as(FullReset(fmt)),
        _ => state.reset(fmt),
    }
    st.inc("probe.inflate_state_reused_after_reset");
    state
}

#[allow(clippy::too_many_arguments)]
pub fn run_inflate_snap(m: &[u8], fmt: DataFormat, ops: &[Vec<i64>], finish_tail: bool, first_finish: bool, tail_cap: usize, st: &mut Stats, cp: &str, snap: Option<u32>, prelude: Option<&Prelude>) -> Result<DecRun, Violation> {
    let mut state = match prelude {
        Some(p) => reused_inflate_state(fmt, p, st),
        // the three public ways to obtain a fresh state (a function of the script only)
        None => match (m.len() + ops.len()) % 3 {
            0 => InflateState::new_boxed(fmt),
            1 => Box::new(InflateState::new(fmt)),
            _ => match fmt {
                DataFormat::Zlib => InflateState::new_boxed_with_window_bits(15),
                DataFormat::Raw => InflateState::new_boxed_with_window_bits(-15),
                _ => InflateState::new_boxed(fmt),
            },
        },
    };
    let n = m.len();
    let mut delivered = 0usize;
    let mut consumed = 0usize;
    let mut sink: Vec<u8> = Vec::new();
    let mut h = Hasher::new();
    let mut opi = 0usize;
    let mut calls = 0u32;
    let mut susp = 0u32;
    let mut tail_calls = 0usize;
    let mut outbuf: Vec<u8> = Vec::new();
    let mut finishing = false;
    let mut saw_failed = false;
    let term;
    loop {
        let (dl, ol, mut fl) = if opi < ops.len() {
            let o = &ops[opi];
            (o[0].max(0) as usize, o[1].max(0) as usize, flush_of(o.get(2).copied().unwrap_or(0)))
        } else {
            tail_calls += 1;
            if tail_calls > tail_cap {
                return viol(&format!("{}.liveness", cp), format!("inflate() driver loop did not terminate within {} tail calls (consumed {} of {}, produced {})", tail_cap, consumed, n, sink.len()));
            }
            (n, 4096, MZFlush::None)
        };
        opi += 1;
        delivered = (delivered + dl).min(n);
        if first_finish && calls == 0 {
            fl = MZFlush::Finish;
            finishing = true;
        } else if finishing || (finish_tail && delivered == n && calls > 0) {
            fl = MZFlush::Finish;
            finishing = true;
        } else if fl == MZFlush::Finish || fl == MZFlush::Full {
            fl = MZFlush::None;
        }
        if outbuf.len() < ol {
            outbuf.resize(ol, 0);
        }
        let inb = &m[consumed..delivered];
        let res = inflate(&mut state, inb, &mut outbuf[..ol], fl);
        calls += 1;
        st.inc("calls");
        st.inc("steps");
        if trace() {
            eprintln!("  inflate call {}: in {} out {} flush {:?} -> {:?} consumed {} written {}", calls, inb.len(), ol, fl, res.status, res.bytes_consumed, res.bytes_written);
        }
        h.u(mz_code(&res.status) as u64);
        h.u(res.bytes_consumed as u64);
        h.u(res.bytes_written as u64);
        if res.bytes_consumed > inb.len() {
            return viol(&format!("{}.consumed_le_offered", cp), format!("inflate call {}: consumed {} > offered {}", calls, res.bytes_consumed, inb.len()));
        }
        if res.bytes_written > ol {
            return viol(&format!("{}.written_le_granted", cp), format!("inflate call {}: written {} > granted {}", calls, res.bytes_written, ol));
        }
        sink.extend_from_slice(&outbuf[..res.bytes_written]);
        consumed += res.bytes_consumed;
        if snap == Some(calls) {
            let copy = match (m.len() + calls as usize) % 4 {
                0 | 1 => state.clone(),
                2 => {
                    // clone_from() into a new state
                    let mut d = InflateState::new_boxed(if calls % 2 == 0 { fmt } else { DataFormat::Raw });
                    d.clone_from(&state);
                    st.inc("fault.crash_restart_clone_from_inflate_state");
                    d
                }
                _ => {
                    // clone_from() into a state that has been used and reset
                    let mut d = InflateState::new_boxed(fmt);
                    let mut scratch = [0u8; 8];
                    let _ = inflate(&mut d, &[0x78, 0x9c, 0x4b], &mut scratch, MZFlush::None);
                    d.reset_as(miniz_oxide::inflate::stream::MinReset);
                    d.clone_from(&state);
                    st.inc("fault.crash_restart_clone_from_inflate_state");
                    d
                }
            };
            drop(state);
            state = copy;
            st.inc("fault.crash_restart_clone_inflate_state");
        }
        let progressed = res.bytes_consumed > 0 || res.bytes_written > 0;
        match res.status {
            Ok(MZStatus::StreamEnd) => {
                term = Term::Done;
                break;
            }
            Ok(_) => {
                susp += 1;
            }
            Err(MZError::Data) => {
                saw_failed = true;
                term = Term::Failed;
                break;
            }
            Err(MZError::Buf) => {
                // recoverable while something can still be supplied
                if first_finish {
                    term = Term::BufEnd;
                    break;
                }
                if delivered == n && ol > 0 && !progressed && opi >= ops.len() {
                    term = Term::BufEnd;
                    break;
                }
                if finishing && delivered == n && inb.len() == res.bytes_consumed && !progressed && ol > 0 {
                    term = Term::BufEnd;
                    break;
                }
                susp += 1;
            }
            Err(_) => {
                term = Term::Proto;
                break;
            }
        }
    }
    h.bytes(&sink);
    h.u(consumed as u64);
    let adler = state.decompressor().adler32();
    Ok(DecRun { term, out: sink, consumed, suspensions: susp, calls, hash: h.0, saw_failed_call: saw_failed, adler })
}

fn common_prefix_equal(a: &[u8], b: &[u8]) -> bool {
    let n = a.len().min(b.len());
    a[..n] == b[..n]
}

pub struct Judge<'a> {
    pub v: &'a Res,
    pub clauses: i64,
    pub trunc_of_valid: bool,
    pub hasmore: i64,
    pub zlib: bool,
    pub ignore_adler: bool,
    pub entry: &'a str,
}

/// Evaluate the accept/reject/equality clauses of C03 / C04 / C06 / C09 on one finished run.
pub fn judge(j: &Judge, run: &DecRun, st: &mut Stats) -> Result<(), Violation> {
    let v = j.v;
    let e = j.entry;
    // produced bytes never contradict the model
    if j.clauses & (CL_C03 | CL_C04 | CL_C09) != 0 && !common_prefix_equal(&run.out, &v.out) {
        let n = run.out.len().min(v.out.len());
        let idx = (0..n).find(|&i| run.out[i] != v.out[i]).unwrap_or(0);
        let cl = if j.clauses & CL_C03 != 0 { "C03.output_equals_spec" } else if j.clauses & CL_C04 != 0 { "C04.output_consistent" } else { "C09.output_consistent" };
        return viol(cl, format!("[{}] output byte {} is {:#04x}, the reference decoder says {:#04x} (model verdict {:?})", e, idx, run.out[idx], v.out[idx], v.verdict));
    }
    if j.clauses & CL_C03 != 0 {
        if let Verdict::Valid = v.verdict {
            if run.term != Term::Done {
                return viol("C03.valid_stream_finishes", format!("[{}] valid stream ended with {:?} after producing {} of {} bytes, consumed {} of {}", e, run.term, run.out.len(), v.out.len(), run.consumed, v.consumed));
            }
            if run.out != v.out {
                return viol("C03.output_equals_spec", format!("[{}] produced {} bytes, specification defines {}", e, run.out.len(), v.out.len()));
            }
        }
    }
    if j.clauses & CL_C04 != 0 {
        if run.term == Term::Done {
            match v.verdict {
                Verdict::Valid => {
                    if run.out != v.out {
                        return viol("C04.done_implies_spec_output", format!("[{}] completion reported with {} bytes, specification defines {}", e, run.out.len(), v.out.len()));
                    }
                    if run.consumed != v.consumed && e != "slice_iter" && e != "to_vec" {
                        return viol("C04.done_implies_consumed_is_stream", format!("[{}] completion reported with {} bytes consumed, the stream is {} bytes", e, run.consumed, v.consumed));
                    }
                }
                _ if v.unspecified => {
                    st.inc("skipped_unspecified");
                }
                other => {
                    return viol("C04.no_success_on_invalid", format!("[{}] completion reported ({} bytes out, {} consumed) but the reference decoder says {:?} at bit {}", e, run.out.len(), run.consumed, other, v.at_bit));
                }
            }
        }
        if let Verdict::Invalid(rule) = v.verdict {
            if v.unspecified {
                st.inc("skipped_unspecified");
            } else {
                let ok = match run.term {
                    Term::Failed | Term::AdlerMismatch | Term::CannotProgress | Term::BufEnd => true,
                    Term::Starved => j.hasmore == 1,
                    _ => false,
                };
                if !ok {
                    return viol("C04.invalid_is_rejected", format!("[{}] stream violating '{}' at bit {} ended with {:?}", e, rule, v.at_bit, run.term));
                }
                st.inc(&format!("probe.rejected.{}", rule));
            }
        }
        if j.trunc_of_valid {
            if run.saw_failed_call || matches!(run.term, Term::Failed | Term::AdlerMismatch | Term::BadParam | Term::Proto) {
                return viol("C04.prefix_not_rejected_as_corrupt", format!("[{}] a proper prefix of a valid stream was rejected with {:?}", e, run.term));
            }
            let ok = match j.hasmore {
                1 => matches!(run.term, Term::Starved | Term::OutFull | Term::BufEnd),
                _ => matches!(run.term, Term::CannotProgress | Term::OutFull | Term::BufEnd),
            };
            if !ok {
                return viol("C04.prefix_status", format!("[{}] a proper prefix of a valid stream ended with {:?} (hasmore mode {})", e, run.term, j.hasmore));
            }
        }
    }
    if j.clauses & CL_C09 != 0 && j.zlib {
        match v.verdict {
            Verdict::Invalid(rule) if rule.starts_with("zlib.") => {
                if rule == "zlib.adler32" {
                    if !matches!(run.term, Term::AdlerMismatch | Term::Failed) {
                        return viol("C09.trailer_verified", format!("[{}] trailer {:#010x} != adler32 of output {:#010x} but the run ended with {:?}", e, v.adler_stored, v.adler_calc, run.term));
                    }
                } else if !matches!(run.term, Term::Failed) {
                    return viol("C09.bad_header_rejected", format!("[{}] header {:02x} {:02x} violates '{}' but the run ended with {:?}", e, v.cmf, v.flg, rule, run.term));
                }
            }
            Verdict::Valid => {
                if run.term != Term::Done {
                    return viol("C09.good_frame_accepted", format!("[{}] valid zlib frame (header {:02x} {:02x}, ignore_adler {}) ended with {:?}", e, v.cmf, v.flg, j.ignore_adler, run.term));
                }
            }
            _ => {}
        }
    }
    Ok(())
}

fn fmt_of(zlib: bool, ignore: bool) -> DataFormat {
    if !zlib {
        DataFormat::Raw
    } else if ignore {
        DataFormat::ZLibIgnoreChecksum
    } else {
        DataFormat::Zlib
    }
}

fn term_of_status(s: TINFLStatus) -> Term {
    match s {
        TINFLStatus::Done => Term::Done,
        TINFLStatus::Failed => Term::Failed,
        TINFLStatus::Adler32Mismatch => Term::AdlerMismatch,
        TINFLStatus::BadParam => Term::BadParam,
        TINFLStatus::FailedCannotMakeProgress => Term::CannotProgress,
        TINFLStatus::NeedsMoreInput => Term::Starved,
        TINFLStatus::HasMoreOutput => Term::OutFull,
        _ => Term::Proto,
    }
}

/// The executor of the `dec` scenario.
pub fn exec(s: &Script, st: &mut Stats) -> Result<RunInfo, Violation> {
    let zlib = s.c("zlib") != 0;
    let mode = s.c("mode"); // 0 flat, 1 ring
    let entry = s.c("entry"); // 0 core, 1 inflate(), 2 to_vec, 3 slice_iter
    let clauses = s.c("clauses");
    let hasmore = s.c("hasmore");
    let ignore_adler = s.c("ignore_adler") != 0;
    let family = s.c("family");
    let canary = s.c("canary") != 0;
    let probe = s.c("probe") != 0;
    let cp: &str = &s.prop;
    for (k, _) in &s.cfg {
        if let Some(name) = k.strip_prefix('+') {
            st.inc(name);
        }
    }
    let stream = s.blob("stream");
    let m = apply_faults(stream, &s.faults, st);
    let ring_bits = s.c_or("ring_bits", 15) as usize;
    let ring_sz = 1usize << ring_bits;
    let ring_init = if mode == 1 && entry == 0 { ring_pattern(s.c("ringfill") as u64, ring_sz) } else { Vec::new() };
    // the streaming wrapper decodes into a zeroed 32 KiB ring of its own
    let wrapper_ring = vec![0u8; 32768];
    let first_finish = s.c("first_finish") != 0;
    let opts = Opts {
        zlib,
        ring: if entry == 0 && mode == 1 {
            Some((ring_sz, &ring_init[..]))
        } else if entry == 1 && !first_finish {
            Some((32768, &wrapper_ring[..]))
        } else {
            None
        },
        tokens: false,
        max_out: 8 << 20,
        ignore_adler,
    };
    let v = refinf::inflate(&m, &opts);
    if v.verdict == Verdict::TooBig {
        st.inc("skipped_too_big");
        return Ok(RunInfo { hash: 1, nontrivial: false });
    }
    st.inc(match v.verdict {
        Verdict::Valid => "model.valid",
        Verdict::Invalid(_) => "model.invalid",
        Verdict::Short => "model.short",
        Verdict::TooBig => "model.toobig",
    });
    let cap_extra = s.c_or("cap_extra", 600) as usize;
    let flat_cap = v.out.len() + cap_extra;
    let mut extra_flags = 0u32;
    if ignore_adler {
        extra_flags |= TINFL_FLAG_IGNORE_ADLER32;
    }
    if s.c("compute_adler") != 0 {
        extra_flags |= TINFL_FLAG_COMPUTE_ADLER32;
    }
    if s.c("stop_bb") != 0 {
        // extra suspension points: the decoder also returns at every block boundary
        extra_flags |= TINFL_FLAG_STOP_ON_BLOCK_BOUNDARY;
    }
    let tail_cap = v.out.len() / (if mode == 1 { ring_sz } else { 1 << 30 }).max(1) + 8 + if s.c("stop_bb") != 0 { v.blocks.len() + 2 } else { 0 };
    let ccfg = CoreCfg {
        zlib,
        ring: if mode == 1 { Some(ring_sz) } else { None },
        ring_init: &ring_init,
        flat_cap,
        hasmore,
        extra_flags,
        canary,
        probe,
        expect: &v.out,
        expect_exact: v.verdict == Verdict::Valid,
        tail_cap,
        clause_prefix: cp,
        snap: None,
        adler_probe: s.c("adler_probe") != 0,
        post_done: clauses & CL_C06 != 0,
        prelude: prelude_of(s),
    };
    let mut hh = Hasher::new();
    let mut nontrivial = !s.faults.is_empty();
    let jd = |ename: &'static str| Judge { v: &v, clauses, trunc_of_valid: s.c("trunc_of_valid") != 0, hasmore, zlib, ignore_adler, entry: ename };

    match entry {
        0 => {
            // ---- core decoder, flat or ring ----
            if family == 4 {
                // C09: all 65 536 two-byte headers in front of a fixed valid body + trailer
                let mut mm = m.clone();
                let mut accepted = 0u64;
                for hdr in 0..65536u32 {
                    mm[0] = (hdr >> 8) as u8;
                    mm[1] = hdr as u8;
                    let vv = refinf::inflate(&mm, &opts);
                    let r = run_core(&mm, &ccfg, &s.ops, st)?;
                    let j = Judge { v: &vv, clauses: CL_C09, trunc_of_valid: false, hasmore, zlib: true, ignore_adler, entry: if mode == 1 { "core/ring" } else { "core/flat" } };
                    judge(&j, &r, st)?;
                    if r.term == Term::Done {
                        accepted += 1;
                    }
                    hh.u(r.hash);
                }
                st.add("probe.header_sweep_headers", 65536);
                st.add("probe.header_sweep_accepted", accepted);
                return Ok(RunInfo { hash: hh.0, nontrivial: true });
            }
            let run_family = |ops: &[Vec<i64>], st: &mut Stats| -> Result<DecRun, Violation> { run_core(&m, &ccfg, ops, st) };
            let base = if clauses & (CL_C07 | CL_C06) != 0 || family != 0 { Some(run_family(&[], st)?) } else { None };
            let compare = |b: &DecRun, r: &DecRun, what: String| -> Result<(), Violation> {
                if r.out != b.out {
                    let nn = r.out.len().min(b.out.len());
                    let idx = (0..nn).find(|&i| r.out[i] != b.out[i]).unwrap_or(nn);
                    return viol("C07.output_equal", format!("{}: output differs from the one-call run at byte {} (lengths {} vs {})", what, idx, r.out.len(), b.out.len()));
                }
                if r.term != b.term {
                    return viol("C07.verdict_equal", format!("{}: final verdict {:?}, one-call run gave {:?}", what, r.term, b.term));
                }
                if r.consumed != b.consumed && r.term != Term::OutFull {
                    return viol("C07.consumed_equal", format!("{}: total consumed {} vs {} in the one-call run (verdict {:?})", what, r.consumed, b.consumed, r.term));
                }
                Ok(())
            };
            let mut runs: Vec<DecRun> = Vec::new();
            match family {
                0 => {
                    let r = run_family(&s.ops, st)?;
                    if clauses & CL_C07 != 0 {
                        compare(base.as_ref().unwrap(), &r, "schedule".into())?;
                    }
                    runs.push(r);
                }
                1 => {
                    // every single cut point
                    for c in 0..=m.len() {
                        let ops = vec![vec![c as i64, -1], vec![(m.len() - c) as i64, -1]];
                        let r = run_family(&ops, st)?;
                        compare(base.as_ref().unwrap(), &r, format!("cut at {}", c))?;
                        hh.u(r.hash);
                        if r.suspensions > 0 {
                            nontrivial = true;
                        }
                    }
                    st.add("probe.sweep_cuts", m.len() as u64 + 1);
                }
                2 => {
                    // byte-at-a-time delivery, chunk size k = cfg sweep_chunk (default 1)
                    let k = s.c_or("sweep_chunk", 1).max(1);
                    let ops: Vec<Vec<i64>> = (0..(m.len() as i64 + k - 1) / k).map(|_| vec![k, -1]).collect();
                    let r = run_family(&ops, st)?;
                    compare(base.as_ref().unwrap(), &r, format!("{}-byte feeding", k))?;
                    runs.push(r);
                }
                3 => {
                    // every single output budget b for the first call, rest unlimited
                    let total = base.as_ref().unwrap().out.len();
                    let step = s.c_or("sweep_step", 1).max(1) as usize;
                    let mut b = 0;
                    while b <= total {
                        let ops = vec![vec![m.len() as i64, b as i64]];
                        let r = run_family(&ops, st)?;
                        if clauses & CL_C07 != 0 {
                            compare(base.as_ref().unwrap(), &r, format!("first-call budget {}", b))?;
                        }
                        hh.u(r.hash);
                        if r.suspensions > 0 {
                            nontrivial = true;
                        }
                        b += step;
                    }
                    st.add("probe.sweep_budgets", (total / step) as u64 + 1);
                }
                6 => {
                    // every PAIR of cut points (two suspensions at chosen places), streams of at most ~70 bytes
                    let n = m.len();
                    for c1 in 0..=n {
                        for c2 in c1..=n {
                            let ops = vec![vec![c1 as i64, -1], vec![(c2 - c1) as i64, -1], vec![(n - c2) as i64, -1]];
                            let r = run_family(&ops, st)?;
                            compare(base.as_ref().unwrap(), &r, format!("cuts at {} and {}", c1, c2))?;
                            hh.u(r.hash);
                            if r.suspensions > 0 {
                                nontrivial = true;
                            }
                        }
                    }
                    st.add("probe.sweep_cut_pairs", ((n + 1) * (n + 2) / 2) as u64);
                }
                7 => {
                    // grid: every cut point x every output budget of the first call
                    let n = m.len();
                    let total = base.as_ref().unwrap().out.len();
                    let mut step = s.c_or("sweep_step", 1).max(1) as usize;
                    // bounded work whatever the script says: at most ~6000 grid points
                    while (n + 1) * (total / step + 1) > 6000 {
                        step += 1 + step / 2;
                    }
                    for c in 0..=n {
                        let mut b = 0;
                        while b <= total {
                            let ops = vec![vec![c as i64, b as i64], vec![(n - c) as i64, -1]];
                            let r = run_family(&ops, st)?;
                            if clauses & CL_C07 != 0 {
                                compare(base.as_ref().unwrap(), &r, format!("cut at {} with first-call budget {}", c, b))?;
                            }
                            hh.u(r.hash);
                            if r.suspensions > 0 {
                                nontrivial = true;
                            }
                            b += step;
                        }
                    }
                    st.add("probe.sweep_cut_budget_grid", ((n + 1) * (total / step + 1)) as u64);
                }
                8 => {
                    // a window of one-byte deliveries somewhere inside a larger stream: everything before the window
                    // in one call, then `sweep_window` calls of one byte each, then the rest
                    let n = m.len();
                    let w0 = (s.c("sweep_from").max(0) as usize).min(n);
                    let wl = (s.c_or("sweep_window", 2000).max(1) as usize).min(n - w0);
                    let mut ops: Vec<Vec<i64>> = Vec::with_capacity(wl + 2);
                    ops.push(vec![w0 as i64, -1]);
                    for _ in 0..wl {
                        ops.push(vec![1, -1]);
                    }
                    ops.push(vec![(n - w0 - wl) as i64, -1]);
                    let r = run_family(&ops, st)?;
                    compare(base.as_ref().unwrap(), &r, format!("one-byte feeding of input bytes [{}, {})", w0, w0 + wl))?;
                    runs.push(r);
                }
                5 => {
                    // constant per-call budget b for all calls
                    let b = s.c_or("sweep_budget", 1).max(1);
                    let ncalls = base.as_ref().unwrap().out.len() as i64 / b + 2;
                    let ops: Vec<Vec<i64>> = (0..ncalls).map(|i| vec![if i == 0 { m.len() as i64 } else { 0 }, b]).collect();
                    let r = run_family(&ops, st)?;
                    if clauses & CL_C07 != 0 {
                        compare(base.as_ref().unwrap(), &r, format!("constant budget {}", b))?;
                    }
                    runs.push(r);
                }
                _ => {}
            }
            for r in &runs {
                hh.u(r.hash);
                if r.suspensions > 0 {
                    nontrivial = true;
                }
                st.add("suspensions", r.suspensions as u64);
                judge(&jd(if mode == 1 { "core/ring" } else { "core/flat" }), r, st)?;
            }
            if let Some(b) = &base {
                hh.u(b.hash);
                if family != 0 {
                    judge(&jd(if mode == 1 { "core/ring" } else { "core/flat" }), b, st)?;
                }
            }
            // ---- C06: exact end of stream ----
            if clauses & CL_C06 != 0 {
                let enc_len = s.c("enc_len") as usize;
                if v.verdict != Verdict::Valid || v.consumed != enc_len {
                    panic!("HARNESS: C06 script whose stream the model does not accept with the generator's length ({:?}, {} vs {})", v.verdict, v.consumed, enc_len);
                }
                for r in runs.iter().chain(base.iter()) {
                    if r.term != Term::Done {
                        return viol("C06.completes", format!("valid stream + {} trailing bytes ended with {:?}", m.len() - enc_len, r.term));
                    }
                    if r.consumed != enc_len {
                        return viol("C06.consumed_exact", format!("stream of {} bytes followed by {} trailing bytes: {} bytes reported consumed", enc_len, m.len() - enc_len, r.consumed));
                    }
                    if r.out != v.out {
                        return viol("C06.output", format!("output differs from the specification ({} vs {} bytes)", r.out.len(), v.out.len()));
                    }
                }
                // the trailing bytes are never needed for completion
                if m.len() > enc_len {
                    let r = run_core(&m[..enc_len], &ccfg, &s.ops, st)?;
                    if r.term != Term::Done || r.consumed != enc_len {
                        return viol("C06.tail_not_needed", format!("the stream alone ({} bytes) ended with {:?}, consumed {}", enc_len, r.term, r.consumed));
                    }
                    hh.u(r.hash);
                }
            }
        }
        1 => {
            // ---- streaming wrapper ----
            let fmt = fmt_of(zlib, ignore_adler);
            let finish_tail = s.c("finish_tail") != 0;
            let tail_cap = v.out.len() / 4096 + m.len() + 16;
            let pre = prelude_of(s);
            let r = run_inflate_snap(&m, fmt, &s.ops, finish_tail, first_finish, tail_cap, st, cp, None, pre.as_ref())?;
            if r.suspensions > 0 {
                nontrivial = true;
            }
            hh.u(r.hash);
            if first_finish && r.term == Term::BufEnd {
                // first-call Finish with too little input or output: documented Buf error, nothing to judge
                st.inc("first_finish_buf");
            } else {
                judge(&jd("inflate()"), &r, st)?;
            }
            if clauses & CL_C06 != 0 {
                let enc_len = s.c("enc_len") as usize;
                if r.term != Term::Done {
                    return viol("C06.completes", format!("[inflate()] valid stream + {} trailing bytes ended with {:?}", m.len() - enc_len, r.term));
                }
                if r.consumed != enc_len {
                    return viol("C06.consumed_exact", format!("[inflate()] stream of {} bytes followed by {} trailing bytes: {} bytes reported consumed", enc_len, m.len() - enc_len, r.consumed));
                }
                if r.out != v.out {
                    return viol("C06.output", format!("[inflate()] output differs ({} vs {} bytes)", r.out.len(), v.out.len()));
                }
            }
            if clauses & CL_C07 != 0 && v.verdict == Verdict::Valid && v.prehistory_reads == 0 {
                // "for valid streams the result is also the same across modes and entry points":
                // compare with the one-call run of the core decoder on a flat buffer.
                let fcfg = CoreCfg { zlib, ring: None, ring_init: &[], flat_cap: v.out.len() + 1, hasmore: 0, extra_flags, canary: false, probe: false, expect: &v.out, expect_exact: true, tail_cap: 4, clause_prefix: cp, snap: None, adler_probe: false, post_done: false, prelude: None };
                let b = run_core(&m, &fcfg, &[], st)?;
                if r.out != b.out {
                    return viol("C07.output_equal", format!("[inflate()] output differs from the one-call flat run (lengths {} vs {})", r.out.len(), b.out.len()));
                }
                if r.term != b.term {
                    return viol("C07.verdict_equal", format!("[inflate()] final verdict {:?}, one-call flat run gave {:?}", r.term, b.term));
                }
                if r.consumed != b.consumed {
                    return viol("C07.consumed_equal", format!("[inflate()] consumed {} vs {} in the one-call flat run", r.consumed, b.consumed));
                }
                hh.u(b.hash);
            }
        }
        2 => {
            // ---- one-shot vector functions ----
            use miniz_oxide::inflate::*;
            let limit = s.c_or("limit", -1);
            let res = match (zlib, limit) {
                (false, l) if l < 0 => decompress_to_vec(&m),
                (true, l) if l < 0 => decompress_to_vec_zlib(&m),
                (false, l) => decompress_to_vec_with_limit(&m, l as usize),
                (true, l) => decompress_to_vec_zlib_with_limit(&m, l as usize),
            };
            st.inc("calls");
            st.inc("steps");
            let n = v.out.len();
            if limit >= 0 {
                nontrivial = true;
            }
            if clauses & CL_C08 != 0 && limit >= 0 && v.verdict == Verdict::Valid {
                let l = limit as usize;
                match &res {
                    Ok(o) => {
                        if o.len() > l {
                            return viol("C08.vec_limit", format!("decompress_to_vec*_with_limit returned {} bytes, limit {}", o.len(), l));
                        }
                        if n > l {
                            return viol("C08.vec_limit_fail", format!("true size {} > limit {} but Ok returned", n, l));
                        }
                        if *o != v.out {
                            return viol("C08.vec_content", "Ok output differs from the specification".into());
                        }
                    }
                    Err(e) => {
                        if n <= l {
                            return viol("C08.vec_limit_exact", format!("true size {} <= limit {} but the call failed with {:?}", n, l, e.status));
                        }
                        if e.status != TINFLStatus::HasMoreOutput {
                            return viol("C08.vec_limit_status", format!("true size {} > limit {}: status {:?}, expected HasMoreOutput", n, l, e.status));
                        }
                        if e.output.len() > l {
                            return viol("C08.vec_limit", format!("error output has {} bytes, limit {}", e.output.len(), l));
                        }
                        if e.output[..] != v.out[..e.output.len()] {
                            return viol("C08.vec_prefix", "error output is not a prefix of the plaintext".into());
                        }
                    }
                }
            }
            let (term, out) = match res {
                Ok(o) => (Term::Done, o),
                Err(e) => (term_of_status(e.status), Vec::new()),
            };
            hh.u(term as u64);
            hh.bytes(&out);
            if limit < 0 {
                let r = DecRun { term, out, consumed: 0, suspensions: 0, calls: 1, hash: 0, saw_failed_call: matches!(term, Term::Failed | Term::AdlerMismatch | Term::BadParam), adler: None };
                let mut j = jd("to_vec");
                // to_vec never announces more input
                j.hasmore = 2;
                judge(&j, &r, st)?;
            }
        }
        3 => {
            // ---- slice iterator helper: ops[i][0] = slice lengths ----
            use miniz_oxide::inflate::decompress_slice_iter_to_slice;
            let mut cuts: Vec<usize> = Vec::new();
            let mut pos = 0usize;
            for o in &s.ops {
                let l = o[0].max(1) as usize;
                if pos + l >= m.len() {
                    break;
                }
                pos += l;
                cuts.push(pos);
            }
            let mut slices: Vec<&[u8]> = Vec::new();
            let mut prev = 0;
            for &c in &cuts {
                slices.push(&m[prev..c]);
                prev = c;
            }
            slices.push(&m[prev..]);
            let mut out = vec![0u8; v.out.len() + s.c_or("cap_extra", 1) as usize];
            let res = decompress_slice_iter_to_slice(&mut out, slices.iter().copied(), zlib, ignore_adler);
            st.inc("calls");
            st.inc("steps");
            if slices.len() > 1 {
                nontrivial = true;
            }
            let (term, o) = match res {
                Ok(nw) => {
                    if nw > out.len() {
                        return viol(&format!("{}.written_le_granted", cp), format!("slice_iter returned {} > buffer {}", nw, out.len()));
                    }
                    (Term::Done, out[..nw].to_vec())
                }
                Err(e) => (term_of_status(e), Vec::new()),
            };
            hh.u(term as u64);
            hh.bytes(&o);
            if clauses & CL_C07 != 0 && slices.len() > 1 {
                // the same bytes as ONE slice: verdict and output must not depend on the partition
                let mut out1 = vec![0u8; out.len()];
                let res1 = decompress_slice_iter_to_slice(&mut out1, std::iter::once(&m[..]), zlib, ignore_adler);
                st.inc("calls");
                let (t1, o1) = match res1 {
                    Ok(nw) => (Term::Done, out1[..nw.min(out1.len())].to_vec()),
                    Err(e) => (term_of_status(e), Vec::new()),
                };
                if t1 != term {
                    return viol("C07.verdict_equal", format!("[slice_iter] {} slices end with {:?}, the same bytes as one slice with {:?}", slices.len(), term, t1));
                }
                if o1 != o {
                    return viol("C07.output_equal", format!("[slice_iter] {} slices give {} bytes, one slice gives {} bytes (or different content)", slices.len(), o.len(), o1.len()));
                }
                st.inc("probe.slice_iter_partition_compared");
            }
            let r = DecRun { term, out: o, consumed: 0, suspensions: 0, calls: 1, hash: 0, saw_failed_call: matches!(term, Term::Failed | Term::AdlerMismatch | Term::BadParam), adler: None };
            let mut j = jd("slice_iter");
            j.hasmore = 0;
            judge(&j, &r, st)?;
        }
        _ => {}
    }
    Ok(RunInfo { hash: hh.0, nontrivial })
}
