//! Script generators for the compressor-side properties (pipe scenario).

use crate::gen;
use crate::pipe::*;
use crate::rng::Rng;
use crate::runner::{CheckDef, RunInfo, Tier};
use crate::script::{Script, Stats, Violation};

fn out_len(rng: &mut Rng, n: usize) -> usize {
    match rng.below(12) {
        0 => 1,
        1 => rng.range(2, 5),
        2 => rng.range(6, 29),
        3 => rng.range(30, 300),
        4 | 5 => rng.range(300, 5000),
        6 => rng.range(85190, 85210),
        7 => rng.range(100_000, 200_000),
        8 | 9 => n + n / 8 + 128,
        _ => rng.range(1, 2000),
    }
}

/// [[chunk, out_len, flush]] for the compressor drivers.
pub fn comp_ops(rng: &mut Rng, n: usize, style: u64, flushes: &[i64], flush_pct: u64, allow_zero_out: bool) -> Vec<Vec<i64>> {
    let mut ops = Vec::new();
    let mut left = n;
    let max_ops = match style % 5 {
        0 => 2,
        1 => 8,
        2 => 40,
        3 => 200,
        _ => 1200,
    };
    let roomy = (style / 5) % 3 == 0; // always ample output space
    while ops.len() < max_ops {
        let c = gen::chunk(rng, left);
        left -= c;
        let mut o = if roomy { n + n / 8 + 300 } else { out_len(rng, n) };
        if allow_zero_out && rng.chance(1, 40) {
            o = 0;
        }
        let f = if rng.chance(flush_pct, 100) { flushes[rng.usize_below(flushes.len())] } else { 0 };
        ops.push(vec![c as i64, o as i64, f]);
        if left == 0 && rng.chance(1, 3) {
            break;
        }
    }
    ops
}

pub fn base_cfg(rng: &mut Rng, s: &mut Script, allow_odd_ctors: bool) {
    let ctor = if allow_odd_ctors {
        match rng.below(10) {
            0 => 1,
            1 => 2,
            2 => 3,
            3 => 1,
            _ => 0,
        }
    } else {
        0
    };
    s.set("ctor", ctor);
    s.set("zlib", rng.chance(1, 2) as i64);
    let level = match rng.below(14) {
        0 => 0,
        1 | 2 => 1,
        3 => rng.range(11, 255) as i64,
        4 => -1,
        x => (x as i64 - 3).clamp(2, 10),
    };
    s.set("level", if ctor == 0 && level < 0 { 6 } else { level });
    s.set("strategy", match rng.below(9) {
        0 => 1,
        1 => 2,
        2 => 3,
        3 => 4,
        _ => 0,
    });
    s.set("window_bits", match rng.below(4) {
        0 => rng.range(8, 14) as i64,
        _ => 15,
    });
    s.set("driver", match rng.below(10) {
        0..=4 => 0,
        5 | 6 => 1,
        _ => 2,
    });
    if allow_odd_ctors && rng.chance(1, 12) {
        add_setters(rng, s);
    }
}

pub fn clear_setters(s: &mut Script) {
    for k in ["setter", "setter2", "setter_before_reset"] {
        if s.c(k) != 0 {
            s.set(k, 0);
        }
    }
}

/// Settings changed through the public setters before the stream starts.
pub fn add_setters(rng: &mut Rng, s: &mut Script) {
    let lvl = |rng: &mut Rng| -> i64 {
        match rng.below(6) {
            0 => 0,
            1 | 2 => 1,
            3 => rng.range(11, 255) as i64,
            _ => rng.range(2, 10) as i64,
        }
    };
    s.set("setter", rng.range(1, 3) as i64);
    s.set("setter_level", lvl(rng));
    s.set("setter_zlib", rng.chance(2, 3) as i64);
    if rng.chance(1, 4) {
        s.set("setter2", rng.range(1, 3) as i64);
        s.set("setter2_level", lvl(rng));
        s.set("setter2_zlib", rng.chance(2, 3) as i64);
    }
    if rng.chance(1, 3) {
        s.set("pre_reset", rng.range(1, 3000) as i64);
        s.set("setter_before_reset", rng.chance(1, 2) as i64);
    }
}

const ALL_TDEFL: [i64; 8] = [1, 2, 3, 5, 6, 7, 2, 3];

/// Block-boundary family: match-free data (or level 0), calls that end exactly where the compressor closes a
/// block on its own (31 * 1024 + 1 bytes after the previous boundary), a flush request in that very call, and
/// output grants around the size of that block.
pub fn boundary_family(rng: &mut Rng, s: &mut Script) -> Vec<u8> {
    const B: usize = 31 * 1024 + 1;
    clear_setters(s);
    let k = rng.range(1, 3);
    let chains = rng.chance(1, 3);
    let n = B * k + rng.pick(&[0usize, 0, 0, 1, 5, 300]) - rng.pick(&[0usize, 0, 1]);
    let tail = rng.pick(&[40usize, 300, 2000, 33000]);
    let plain = if chains { gen::chain_boundary_plain(rng, k, tail) } else { rng.bytes(n) };
    let n = plain.len();
    if chains {
        // lazy parsing with a match pending when the compressor closes the block on its own
        s.set("level", rng.range(4, 10) as i64);
        s.set("strategy", rng.pick(&[0i64, 0, 4]));
        if s.c("ctor") != 0 && s.c("ctor") != 1 {
            s.set("ctor", 0);
        }
    } else if rng.chance(1, 3) {
        s.set("level", 0);
    } else if rng.chance(1, 3) {
        s.set("strategy", 2);
    }
    s.set("window_bits", 15);
    let fl = rng.pick(&[0i64, 1, 2, 3, 4, 4, 2, 3, 7]);
    let grant = |rng: &mut Rng| -> i64 {
        match rng.below(8) {
            0 => 1000,
            1 => 4096,
            2 => rng.range(31740, 31765) as i64,
            3 => rng.range(31000, 33000) as i64,
            4 => 100,
            5 => (n + n / 8 + 400) as i64,
            6 => rng.range(1, 64) as i64,
            _ => rng.range(2000, 90000) as i64,
        }
    };
    let mut ops: Vec<Vec<i64>> = Vec::new();
    let mut left = n;
    // optionally a completed flush of the same mode first (then the boundary call repeats that mode)
    if rng.chance(1, 3) {
        let c = rng.range(0, 40).min(left);
        left -= c;
        ops.push(vec![c as i64, (n + 400) as i64, fl]);
    }
    let delta = rng.pick(&[0i64, 0, 0, 0, -1, 1]);
    let first = ((B as i64 + delta).max(0) as usize).min(left);
    if rng.chance(1, 2) {
        ops.push(vec![first as i64, grant(rng), fl]);
    } else {
        let a = rng.range(0, first);
        ops.push(vec![a as i64, grant(rng), 0]);
        ops.push(vec![(first - a) as i64, grant(rng), fl]);
    }
    left -= first;
    while left > 0 {
        let c = if rng.chance(1, 2) { B.min(left) } else { rng.range(1, left) };
        left -= c;
        ops.push(vec![c as i64, grant(rng), if rng.chance(1, 2) { fl } else { 0 }]);
    }
    s.ops = ops;
    if rng.chance(1, 3) {
        s.set("tail_out", rng.pick(&[1000i64, 512, 4096, 31752]));
    }
    plain
}

/// Many-flush family: tens of thousands of tiny flushed blocks in one stream (counters that wrap).
pub fn many_flush_family(rng: &mut Rng, s: &mut Script) -> Vec<u8> {
    let f = rng.pick(&[2i64, 2, 3, 1]);
    // a Full flush clears 128 KiB of hash tables per call: keep that variant just past the 16-bit boundary
    let calls = if f == 3 { 65_540usize } else { rng.pick(&[65_540usize, 66_000, 70_000, 131_100]) };
    let plain = rng.bytes(calls / 2);
    let mut ops = Vec::with_capacity(calls);
    for i in 0..calls {
        ops.push(vec![(i % 2) as i64, 64, f]);
    }
    s.ops = ops;
    if s.c("driver") == 1 {
        s.set("driver", 0);
    }
    plain
}

/// Dictionary-wrap runs (RLE and friends) or nearly incompressible data with a low match density, > 32 KiB.
pub fn wrap_or_sparse_family(rng: &mut Rng, s: &mut Script) {
    clear_setters(s);
    let n = rng.range(33_000, 110_000);
    let plain;
    if rng.chance(1, 2) {
        plain = gen::segment(rng, 9, n, &[]);
        s.set("strategy", rng.pick(&[3i64, 3, 3, 0, 1]));
        s.set("level", rng.range(1, 10) as i64);
        if rng.chance(1, 3) {
            s.set("ctor", 0);
            s.set("window_bits", rng.range(8, 11) as i64);
        }
    } else {
        plain = gen::segment(rng, 10, n, &[]);
        s.set("strategy", rng.pick(&[4i64, 4, 0, 1]));
        s.set("level", rng.range(2, 10) as i64);
        s.set("window_bits", 15);
    }
    let style = rng.next_u64();
    let fp = rng.pick(&[0u64, 0, 5]);
    s.ops = comp_ops(rng, n, style, &ALL_TDEFL, fp, false);
    s.set_blob("plain", plain);
}

pub const PHASE_SCRIPTS: u64 = 32;

/// Deterministic family (run indices 0..PHASE_SCRIPTS): all 4096 phases between the instant the LZ code
/// buffer fills and the compressor's look-ahead rounds, 128 per script (see pipe::exec).
pub fn phase_sweep_script(rng: &mut Rng, i: u64, prop: &str) -> Script {
    let mut s = Script::new(prop, "pipe");
    s.set("ctor", 0);
    s.set("zlib", 1);
    // level 1 is the fast path with its 4096-byte rounds; every eighth script targets the lazy parser (below)
    s.set("level", 1);
    s.set("strategy", 0);
    s.set("window_bits", 15);
    s.set("driver", rng.pick(&[0i64, 0, 2]));
    s.set("clauses", PC_C02 | PC_C16);
    s.set("phase_from", (i * 128) as i64);
    s.set("phase_count", 128);
    s.set("phase_byte", rng.below(256) as i64);
    if i % 8 == 7 {
        // lazy parser, code buffer filled by compressible data, fattest steps around the fill point; the phase is
        // shifted by r literal bytes (r code bytes) in front instead of a run
        s.set("level", rng.pick(&[4i64, 6, 6, 9]));
        s.set("driver", 0);
        let body = gen::fat_step_plain(rng, 270);
        s.set("phase_from", 0);
        s.set("phase_noise", 1);
        s.set_blob("phase_prefix", rng.bytes(128));
        let n = body.len();
        s.ops = vec![vec![(n + 5000) as i64, rng.pick(&[1000i64, 200_000, (2 * n) as i64]), 0]];
        s.set("tail_out", rng.pick(&[4096i64, 100_000]));
        s.set_blob("plain", body);
        return s;
    }
    let n = rng.range(62_000, 70_000) + if rng.chance(1, 3) { 64_000 } else { 0 };
    let grant = rng.pick(&[64i64, 64, 1, 4096, 400_000]);
    s.ops = vec![vec![(n + 5000) as i64, grant, 0]];
    s.set("tail_out", rng.pick(&[64i64, 4096, 100_000]));
    s.set_blob("plain", rng.bytes(n));
    s
}

/// Deep-Huffman-code family: symbol-frequency ladders, mostly without matching (so the literal code itself is
/// deep), at every level.
pub fn ladder_family(rng: &mut Rng, s: &mut Script) {
    clear_setters(s);
    let max_len = rng.pick(&[600usize, 5000, 5000, 20_000, 70_000]);
    let plain = gen::ladder(rng, max_len);
    s.set("strategy", rng.pick(&[2i64, 2, 2, 0, 1, 3]));
    s.set("level", rng.range(1, 10) as i64);
    s.set("window_bits", 15);
    let style = rng.next_u64();
    let fp = rng.pick(&[0u64, 0, 10]);
    s.ops = comp_ops(rng, plain.len(), style, &ALL_TDEFL, fp, false);
    s.set_blob("plain", plain);
}

/// Checksum-target family: input whose Adler-32 is 0, 1 (the empty string's), has a zero half, or the largest
/// halves; the last byte (the one that makes the low half land) is usually consumed by a call of its own.
pub fn checksum_family(rng: &mut Rng, s: &mut Script) {
    clear_setters(s);
    let (ta, tb) = gen::adler_special(rng);
    let pl = rng.pick(&[0usize, 10, 300, 3000]);
    let mut plain = gen::adler_target(rng, ta, tb, pl);
    let core = plain.len();
    if rng.chance(1, 3) {
        let extra = rng.range(1, 40);
        let e = rng.bytes(extra);
        plain.extend_from_slice(&e);
    }
    let n = plain.len();
    let big = (n + n / 8 + 400) as i64;
    let grant = |rng: &mut Rng| rng.pick(&[big, big, 4096, 64, 1]);
    let mut ops: Vec<Vec<i64>> = Vec::new();
    let fl = rng.pick(&[0i64, 0, 0, 2, 4]);
    match rng.below(4) {
        0 => ops.push(vec![n as i64, grant(rng), fl]),
        1 => {
            ops.push(vec![(core - 1) as i64, grant(rng), 0]);
            ops.push(vec![1, grant(rng), fl]);
        }
        2 => {
            ops.push(vec![core as i64, grant(rng), 0]);
            ops.push(vec![(n - core) as i64, grant(rng), fl]);
        }
        _ => {
            let style = rng.next_u64();
            ops = comp_ops(rng, n, style, &ALL_TDEFL, 10, false);
        }
    }
    s.ops = ops;
    s.set("putfail", 0);
    s.set_blob("plain", plain);
}

/// Deterministic family on a short input: a flush (or a bare call boundary) after every input position.
pub fn flush_sweep(rng: &mut Rng, s: &mut Script, flushes: &[i64]) {
    let n = rng.range(0, 260);
    let cls = rng.pick(&[0u64, 1, 2, 3, 5, 8]);
    let plain = gen::segment(rng, cls, n, &[]);
    s.set("flush_sweep", flushes[rng.usize_below(flushes.len())]);
    s.set("sweep_grant", rng.pick(&[1i64 << 20, 1 << 20, 1, 2, 5, 9, 64]));
    s.set("sweep_second", rng.pick(&[0i64, 0, 4, 2]));
    s.set("tail_out", rng.pick(&[4096i64, 4096, 1, 7]));
    s.set("putfail", 0);
    s.ops.clear();
    s.set_blob("plain", plain);
}

pub fn gen_c02(rng: &mut Rng, i: u64, tier: Tier) -> Script {
    if i < PHASE_SCRIPTS {
        return phase_sweep_script(rng, i, "C02");
    }
    let mut s = Script::new("C02", "pipe");
    base_cfg(rng, &mut s, true);
    s.set("clauses", PC_C02 | PC_C16);
    if rng.chance(1, 60) {
        flush_sweep(rng, &mut s, &[1, 2, 3, 5, 6, 7, 8, 8]);
        return s;
    }
    if rng.chance(1, 50) {
        ladder_family(rng, &mut s);
        return s;
    }
    if rng.chance(1, 300) {
        checksum_family(rng, &mut s);
        return s;
    }
    if rng.chance(1, 25) {
        let plain = boundary_family(rng, &mut s);
        s.set_blob("plain", plain);
        return s;
    }
    if rng.chance(1, 2500) {
        let plain = many_flush_family(rng, &mut s);
        s.set_blob("plain", plain);
        return s;
    }
    if rng.chance(1, 30) {
        wrap_or_sparse_family(rng, &mut s);
        return s;
    }
    let heavy = rng.chance(1, 12);
    let n = if heavy { rng.range(32_000, 140_000) } else { gen::plain_size(rng, if tier == Tier::Thorough { 15 } else { 8 }) };
    let plain = if heavy {
        // compressible data with many competing matches: keeps a lazy match pending at block flushes
        let cls = rng.pick(&[3u64, 3, 8, 5, 4]);
        gen::segment(rng, cls, n, &[])
    } else {
        gen::plaintext(rng, n)
    };
    if heavy {
        // lazy parsing, buffer sink smaller than a flushed block: early return from compress_normal
        clear_setters(&mut s);
        s.set("level", rng.range(4, 10) as i64);
        s.set("strategy", rng.pick(&[0i64, 0, 0, 1, 4]));
        s.set("driver", rng.pick(&[0i64, 0, 2]));
        s.set("window_bits", 15);
    }
    let style = if heavy { 5 * rng.pick(&[1u64, 2]) + rng.pick(&[0u64, 1, 2]) } else { rng.next_u64() };
    let flush_pct = rng.pick(&[0u64, 5, 20, 50]);
    let zero_ok = s.c("driver") != 2 || rng.chance(1, 2);
    s.ops = comp_ops(rng, n, style, &ALL_TDEFL, flush_pct, zero_ok);
    if heavy {
        for o in s.ops.iter_mut() {
            o[1] = rng.pick(&[1i64, 100, 512, 4096, 30000]);
        }
    }
    // an explicit Finish somewhere in the schedule now and then (sticky afterwards)
    if rng.chance(1, 4) && !s.ops.is_empty() {
        let k = rng.usize_below(s.ops.len());
        s.ops[k][2] = 4;
    }
    if s.c("driver") == 1 && rng.chance(1, 12) {
        s.set("putfail", rng.range(1, 4) as i64);
    }
    if !heavy && n <= 2000 && rng.chance(1, 8) {
        // constant tiny grant for every call of the Finish loop (family "every output size")
        s.set("tail_out", rng.range(1, 64) as i64);
        if rng.chance(1, 2) {
            s.ops.clear();
        }
    }
    s.set_blob("plain", plain);
    s
}

pub fn gen_c12(rng: &mut Rng, _i: u64, tier: Tier) -> Script {
    let mut s = Script::new("C12", "pipe");
    base_cfg(rng, &mut s, true);
    s.set("clauses", PC_C12);
    if rng.chance(1, 60) {
        flush_sweep(rng, &mut s, &[1, 2, 3]);
        s.set("sweep_grant", 1 << 20);
        return s;
    }
    if rng.chance(1, 25) {
        let plain = boundary_family(rng, &mut s);
        s.set_blob("plain", plain);
        return s;
    }
    if rng.chance(1, 2500) {
        let plain = many_flush_family(rng, &mut s);
        s.set_blob("plain", plain);
        return s;
    }
    let n = match rng.below(100) {
        x if x < (if tier == Tier::Thorough { 12 } else { 6 }) => rng.range(33_000, 140_000),
        x if x < 30 => rng.range(600, 8000),
        _ => rng.range(0, 600),
    };
    let plain = gen::plaintext(rng, n);
    let style = rng.next_u64();
    let mut ops = { let fp = rng.pick(&[20u64, 40, 70]); comp_ops(rng, n, style, &[1, 2, 3, 2, 3, 3, 7, 5, 6], fp, false) };
    // flush requests are only useful where there is room: give most flush ops ample space
    for o in ops.iter_mut() {
        if o[2] != 0 && rng.chance(3, 4) {
            o[1] = (n + n / 8 + 400) as i64;
        }
    }
    // biased instants: first op, twice in a row
    if !ops.is_empty() && rng.chance(1, 5) {
        ops[0][2] = rng.pick(&[1i64, 2, 3]);
        ops[0][1] = (n + 400) as i64;
    }
    if ops.len() >= 2 && rng.chance(1, 5) {
        let k = rng.usize_below(ops.len() - 1);
        let f = rng.pick(&[2i64, 3]);
        ops[k][2] = f;
        ops[k + 1][2] = f;
        ops[k][1] = (n + 400) as i64;
        ops[k + 1][1] = (n + 400) as i64;
    }
    // NoSync ; Sync pair versus Sync alone (core drivers only)
    if s.c("driver") != 2 && rng.chance(1, 5) && !ops.is_empty() {
        let k = rng.usize_below(ops.len());
        let big = (n + n / 8 + 400) as i64;
        // everything before must leave no pending output for the comparison to be about the pair only
        for o in ops.iter_mut().take(k) {
            o[1] = big;
            if o[2] == 4 {
                o[2] = 0;
            }
        }
        ops[k][1] = big;
        ops[k][2] = 7;
        ops.insert(k + 1, vec![0, big, 2]);
        s.set("nosync_pair_at", k as i64);
    }
    s.ops = ops;
    s.set_blob("plain", plain);
    s
}

pub fn gen_c10(rng: &mut Rng, i: u64, tier: Tier) -> Script {
    if i < 4 {
        // the lazy parser's fattest steps in every phase of the code-buffer-full instant (see phase_sweep_script)
        let mut s = phase_sweep_script(rng, 8 * i + 7, "C10");
        s.set("clauses", PC_C10);
        return s;
    }
    let mut s = Script::new("C10", "pipe");
    base_cfg(rng, &mut s, true);
    s.set("clauses", PC_C10);
    if rng.chance(1, 10) {
        // redundancy family: X || X, X incompressible, matching enabled, full window
        let xl = rng.range(512, 12000);
        let x = rng.bytes(xl);
        let mut p = x.clone();
        p.extend_from_slice(&x);
        s.set("clauses", PC_C10 | PC_REDUNDANCY);
        clear_setters(&mut s);
        s.set("level", rng.range(1, 10) as i64);
        s.set("strategy", rng.pick(&[0i64, 0, 1, 4]));
        s.set("window_bits", 15);
        s.set("ctor", rng.pick(&[0i64, 1]));
        let style = rng.next_u64();
        s.ops = comp_ops(rng, p.len(), style, &[0], 0, false);
        s.set_blob("plain", p);
        return s;
    }
    if rng.chance(1, 30) {
        wrap_or_sparse_family(rng, &mut s);
        return s;
    }
    if rng.chance(1, 40) {
        let plain = boundary_family(rng, &mut s);
        s.set_blob("plain", plain);
        return s;
    }
    if rng.chance(1, 25) {
        ladder_family(rng, &mut s);
        return s;
    }
    let n = gen::plain_size(rng, if tier == Tier::Thorough { 12 } else { 6 });
    let plain = gen::plaintext(rng, n);
    if rng.chance(1, 8) {
        // one-shot emitters
        clear_setters(&mut s);
        s.set("driver", 3);
        s.set("ctor", 1);
        s.set("strategy", 0);
        s.set("window_bits", 15);
        if s.c("level") < 0 {
            s.set("level", 6);
        }
    } else {
        let style = rng.next_u64();
        s.ops = { let fp = rng.pick(&[0u64, 10, 30]); comp_ops(rng, n, style, &ALL_TDEFL, fp, false) };
    }
    s.set_blob("plain", plain);
    s
}

/// plaintext with repeats planted at distances between the declared window and 32 KiB
fn far_repeat_plain(rng: &mut Rng, w: usize) -> Vec<u8> {
    let win = 1usize << w.max(8).min(15);
    let mut v: Vec<u8> = Vec::new();
    let pieces = rng.range(1, 4);
    for _ in 0..pieces {
        let rl = rng.range(3, 600);
        let r = match rng.below(3) {
            0 => rng.bytes(rl),
            1 => gen::segment(rng, 3, rl, &[]),
            _ => gen::segment(rng, 1, rl, &[]),
        };
        let d = match rng.below(6) {
            0 => win + rng.range(1, 64),
            1 => rng.range(win.min(32768), 32768),
            2 => 32768,
            3 => rng.range(1, win),
            4 => win,
            _ => rng.range(300, 32768),
        }
        .max(rl + 1);
        v.extend_from_slice(&r);
        let fill_class = rng.pick(&[0u64, 0, 3, 4, 2]);
        let fill = gen::segment(rng, fill_class, d - rl, &v);
        v.extend_from_slice(&fill);
        v.extend_from_slice(&r);
        if rng.chance(1, 2) {
            let extra = rng.range(0, 400);
            let e = rng.bytes(extra);
            v.extend_from_slice(&e);
        }
    }
    v
}

/// Data of period P (a random block of P bytes repeated): with P just beyond a window of 2^w every repeat is a
/// match candidate that the declared window forbids.
fn periodic_plain(rng: &mut Rng, period: usize, total: usize) -> Vec<u8> {
    let block = rng.bytes(period);
    let mut v = Vec::with_capacity(total + period);
    while v.len() < total {
        v.extend_from_slice(&block);
    }
    v.truncate(total);
    v
}

pub fn gen_c11(rng: &mut Rng, i: u64, _tier: Tier) -> Script {
    if i < 16 {
        // every phase of the self-initiated block flush (see phase_sweep_script) for reduced windows, on data
        // whose only redundancy lies just beyond the declared window
        let mut s = phase_sweep_script(rng, 2 * i, "C11");
        let w = rng.pick(&[12usize, 12, 13, 14]);
        s.set("window_bits", w as i64);
        s.set("level", rng.pick(&[1i64, 1, 1, 6, 9]));
        s.set("strategy", rng.pick(&[0i64, 0, 4]));
        s.set("clauses", PC_C11);
        s.set("phase_noise", 0);
        s.set("driver", rng.pick(&[0i64, 0, 2]));
        let period = (1usize << w) + rng.range(1, 300);
        let total = rng.range(62_000, 70_000) + if rng.chance(1, 2) { 62_000 } else { 0 };
        // a grant that takes everything (the call goes on into the next block) or a small one
        s.ops = vec![vec![(total + 5000) as i64, if rng.chance(2, 3) { (2 * total + 1000) as i64 } else { 64 }, 0]];
        s.set_blob("plain", periodic_plain(rng, period, total));
        return s;
    }
    let mut s = Script::new("C11", "pipe");
    s.set("ctor", 0);
    s.set("zlib", 1);
    let w = match rng.below(10) {
        0 => rng.range(1, 7),
        _ => rng.range(8, 15),
    };
    s.set("window_bits", w as i64);
    s.set("level", match rng.below(8) {
        0 => 0,
        1 | 2 => 1,
        x => (x as i64 + 2).min(10),
    });
    s.set("strategy", match rng.below(8) {
        0 => 1,
        1 => 2,
        2 => 3,
        3 => 4,
        _ => 0,
    });
    s.set("driver", rng.pick(&[0i64, 0, 1, 2]));
    s.set("clauses", PC_C11);
    if rng.chance(1, 4) {
        s.set("pre_reset", rng.range(1, 3000) as i64);
    }
    if rng.chance(1, 4) {
        // settings changed through the setters before the stream starts: the window given at creation still
        // bounds what the header may declare and what the matches may reach
        add_setters(rng, &mut s);
        if rng.chance(3, 4) {
            s.set("setter_zlib", 1);
            s.set("setter2_zlib", 1);
        }
    }
    let long_periodic = (12..=14).contains(&w) && rng.chance(1, 150);
    let plain = if long_periodic {
        // hundreds of look-ahead rounds in one stream: bookkeeping that drifts a few bytes per round shows late
        let period = (1usize << w) + rng.range(1, 400);
        let total = rng.range(300_000, 600_000);
        periodic_plain(rng, period, total)
    } else if rng.chance(4, 5) {
        far_repeat_plain(rng, w)
    } else {
        let pn = rng.range(0, 4000);
        gen::plaintext(rng, pn)
    };
    let n = plain.len();
    let style = rng.next_u64();
    s.ops = { let fp = rng.pick(&[0u64, 0, 10, 30]); comp_ops(rng, n, style, &[1, 2, 3, 7], fp, false) };
    s.set_blob("plain", plain);
    s
}

pub fn gen_c09(rng: &mut Rng, i: u64, tier: Tier) -> Script {
    let sweeps = if tier == Tier::Thorough { 66 } else { 22 };
    if i < sweeps || rng.chance(1, 2) {
        return crate::props_dec::gen_c09_dec(rng, i, tier);
    }
    // producer side: zlib-format compressor runs incl. "first op is a flush with no data" and 1-byte grants
    let mut s = Script::new("C09", "pipe");
    base_cfg(rng, &mut s, true);
    s.set("zlib", 1);
    if s.c("ctor") == 1 {
        s.set("window_bits", rng.range(8, 15) as i64);
    }
    s.set("clauses", PC_C09);
    if rng.chance(1, 100) {
        checksum_family(rng, &mut s);
        s.set("zlib", 1);
        return s;
    }
    if rng.chance(1, 30) {
        let plain = boundary_family(rng, &mut s);
        s.set_blob("plain", plain);
        return s;
    }
    if rng.chance(1, 2500) {
        let plain = many_flush_family(rng, &mut s);
        s.set_blob("plain", plain);
        return s;
    }
    let n = match rng.below(10) {
        0 => rng.range(30_000, 100_000),
        1 | 2 => rng.range(600, 6000),
        _ => rng.range(0, 600),
    };
    let plain = gen::plaintext(rng, n);
    let style = rng.next_u64();
    let mut ops = { let fp = rng.pick(&[0u64, 20, 50]); comp_ops(rng, n, style, &ALL_TDEFL, fp, false) };
    if rng.chance(1, 4) {
        ops.insert(0, vec![0, rng.pick(&[1i64, 2, 5, 100]), rng.pick(&[1i64, 2, 3, 4, 7])]);
    }
    if rng.chance(1, 4) {
        for o in ops.iter_mut() {
            o[1] = 1;
        }
    }
    s.ops = ops;
    s.set_blob("plain", plain);
    s
}

pub fn exec_any(s: &Script, st: &mut Stats) -> Result<RunInfo, Violation> {
    match s.scen.as_str() {
        "dec" => crate::dec::exec(s, st),
        _ => crate::pipe::exec(s, st),
    }
}

const ASSUME: &[&str] = &[
    "reference inflater (harness, written from RFC 1951/1950; cross-checked against system zlib 1.2.13 in ./check selftest)",
    "system zlib 1.2.13 as second independent decoder (C10, C11)",
    "x86-64 little-endian build only",
    "seeded sampling of schedules/configurations: a clean batch is evidence, not proof",
];

pub fn defs() -> Vec<CheckDef> {
    vec![
        CheckDef {
            id: "C02",
            level: "exploration",
            runs_quick: 800_000,
            runs_thorough: 15_000_000,
            block: 256,
            gen: gen_c02,
            exec: crate::pipe::exec,
            rule: "run = plaintext (9 classes, sizes incl. thresholds 257..85197 and 90-400 KiB) x compressor config (4 constructors, level -1..255, 5 strategies, raw/zlib, window_bits 8..15) x driver (compress into buffer | compress_to_output callback | deflate()) x seeded schedule of (chunk >= 0, out_len >= 0, flush in 8 modes, Finish sticky) + optional failing callback; oracle: counts, statuses, liveness of the Finish loop, reference-inflater decode == consumed input, exactly one stream; non-trivial = at least one non-final call returned (suspension) or a flush or an injected sink fault; distinct = shape fingerprint",
            shrink_cfg: &["putfail"],
            shrink_blobs: true,
            assumptions: ASSUME,
        },
        CheckDef {
            id: "C09",
            level: "fault_enumeration",
            runs_quick: 2_000_000,
            runs_thorough: 40_000_000,
            block: 256,
            gen: gen_c09,
            exec: exec_any,
            rule: "decoder side: runs 0..17 (quick) are deterministic sweeps of ALL 65536 two-byte headers in front of a valid body for {flat, ring 2^8..2^15} x {one call, header split from body}; the rest: valid zlib frame + trailer/body/header corruption x entry point x schedule x ignore-checksum flag. Producer side: zlib-format compressor runs under schedules incl. leading empty flushes and 1-byte grants: header rules and trailer == bytewise Adler-32 of the consumed input. non-trivial = a fault fired, a sweep, or a suspension; distinct = shape fingerprint",
            shrink_cfg: &[],
            shrink_blobs: false,
            assumptions: ASSUME,
        },
        CheckDef {
            id: "C10",
            level: "exploration",
            runs_quick: 2_000_000,
            runs_thorough: 40_000_000,
            block: 256,
            gen: gen_c10,
            exec: crate::pipe::exec,
            rule: "run = plaintext x config x driver (three streaming drivers under schedules with interleaved flushes, compress_to_vec*) ; the emitted bytes are parsed to a token trace by the reference inflater and decoded by system zlib; clauses: both decoders return the input, header counts, level 0 => stored only, Fixed => no dynamic block, HuffmanOnly => no match, RLE => distance 1, Filtered => no match < 5, and (10 % of runs) X||X with incompressible X of 512..12000 bytes compresses below 0.70 of its size at levels 1..10; non-trivial = suspension or flush; distinct = shape fingerprint",
            shrink_cfg: &[],
            shrink_blobs: true,
            assumptions: ASSUME,
        },
        CheckDef {
            id: "C11",
            level: "exploration",
            runs_quick: 600_000,
            runs_thorough: 12_000_000,
            block: 128,
            gen: gen_c11,
            exec: crate::pipe::exec,
            rule: "run = with_params(Zlib, level 0..10, 5 strategies, window_bits 1..15) x plaintext with repeats planted at distances between the declared window and 32 KiB x driver x schedule incl. flushes; consumers: reference inflater (CINFO, max distance of the token trace), system zlib with inflateInit2(0) (allocates only the declared window), the crate's decoder with a ring of exactly 2^(CINFO+8) bytes; non-trivial = suspension or flush; distinct = shape fingerprint",
            shrink_cfg: &[],
            shrink_blobs: true,
            assumptions: ASSUME,
        },
        CheckDef {
            id: "C12",
            level: "exploration",
            runs_quick: 1_500_000,
            runs_thorough: 30_000_000,
            block: 256,
            gen: gen_c12,
            exec: crate::pipe::exec,
            rule: "run = plaintext x config x driver x schedule with flush requests (Partial/Sync/Full/NoSync/PartialOpt/SyncOpt) at scheduler-chosen instants (start, twice in a row, after > 32 KiB, with tiny grants); for every call satisfying the statement's premise the emitted prefix alone is decoded by the reference inflater and must equal all input so far, Sync/Full end on 00 00 FF FF with zero pending bits, the remainder after each qualified Full flush decodes with empty history, NoSync;Sync == Sync; non-trivial = at least one flush; distinct = shape fingerprint",
            shrink_cfg: &[],
            shrink_blobs: true,
            assumptions: ASSUME,
        },
    ]
}
