//! Reference inflater - the executable model. Written from RFC 1951 section 3.2 and RFC 1950 only.
//! Bit-by-bit canonical decoding (count / first-code method), byte-vector output, base/extra
//! tables computed from the RFC's doubling rule at start-up. Shares no code or table with the crate.
//!
//! Where RFC 1951 is silent the rules are zlib's (the crate's comments cite them as intended):
//! HLIT <= 286, HDIST <= 30, code-length code complete, litlen/dist codes complete unless the longest
//! code is <= 1 bit, over-subscription always invalid, an unused bit pattern is invalid when it
//! occurs. Constructs that are "unspecified" set `unspecified` and callers skip accept/reject
//! comparisons for such runs.

#[derive(Clone, Copy, Debug, PartialEq, Eq)]
pub enum Verdict {
    /// Complete valid stream; `consumed` bytes were needed.
    Valid,
    /// A definite violation (rule name) was met with all needed input present.
    Invalid(&'static str),
    /// Input ended before the stream did and nothing checkable so far is wrong.
    Short,
    /// Output exceeded `max_out` (run is skipped by callers).
    TooBig,
}

#[derive(Clone, Copy, Debug, PartialEq, Eq)]
pub enum Tok {
    Lit(u8),
    Match { len: u16, dist: u16 },
}

#[derive(Clone, Debug, Default)]
pub struct Block {
    pub btype: u8,
    pub bfinal: bool,
    /// bit offset (from start of the deflate data, i.e. after a zlib header) of the 3 header bits
    pub start_bit: usize,
    /// bit offset just after the last bit of the block (after EOB code / last stored byte)
    pub end_bit: usize,
    pub out_start: usize,
    pub out_end: usize,
    pub tok_start: usize,
    pub tok_end: usize,
    pub hlit: u16,
    pub hdist: u16,
    pub hclen: u16,
    pub ll_lens: Vec<u8>,
    pub d_lens: Vec<u8>,
    pub cl_lens: Vec<u8>,
    pub stored_len: u32,
    pub complete: bool,
}

#[derive(Clone, Debug)]
pub struct Res {
    pub verdict: Verdict,
    /// bit position (within the whole input, header included) where decoding stopped
    pub at_bit: usize,
    pub out: Vec<u8>,
    pub blocks: Vec<Block>,
    pub tokens: Vec<Tok>,
    pub max_dist: usize,
    pub min_match_len: usize,
    pub n_matches: usize,
    /// bytes of input belonging to the stream (valid only for Verdict::Valid)
    pub consumed: usize,
    pub cmf: u8,
    pub flg: u8,
    pub adler_stored: u32,
    pub adler_calc: u32,
    /// set when a construct whose validity is not determined by the RFCs was used
    pub unspecified: bool,
    /// litlen code of some block had no end-of-block symbol (zlib rejects early, RFC does not say)
    pub no_eob_code: bool,
    /// number of bytes read from "before the start" (ring mode only)
    pub prehistory_reads: usize,
    /// zlib header declares window 2^(cinfo+8) and a distance larger than that was used
    pub dist_exceeds_declared: bool,
    /// offset of the end of the deflate data in bytes (before the adler trailer), for Valid zlib
    pub deflate_end: usize,
}

pub struct Opts<'a> {
    pub zlib: bool,
    /// None = flat history (distance beyond produced bytes is invalid);
    /// Some((n, init)) = ring of n bytes with initial contents init (len n).
    pub ring: Option<(usize, &'a [u8])>,
    pub tokens: bool,
    pub max_out: usize,
    pub ignore_adler: bool,
}

impl<'a> Opts<'a> {
    pub fn flat(zlib: bool) -> Opts<'a> {
        Opts { zlib, ring: None, tokens: false, max_out: 64 << 20, ignore_adler: false }
    }
}

struct Bits<'a> {
    d: &'a [u8],
    pos: usize, // bit position
}

impl<'a> Bits<'a> {
    #[inline]
    fn left(&self) -> usize {
        self.d.len() * 8 - self.pos
    }
    #[inline]
    fn bit(&mut self) -> Option<u32> {
        if self.pos >= self.d.len() * 8 {
            return None;
        }
        let b = (self.d[self.pos >> 3] >> (self.pos & 7)) & 1;
        self.pos += 1;
        Some(b as u32)
    }
    #[inline]
    fn bits(&mut self, n: u32) -> Option<u32> {
        if self.left() < n as usize {
            // consume what is there so that at_bit reflects end of input
            self.pos = self.d.len() * 8;
            return None;
        }
        let mut v = 0u32;
        for i in 0..n {
            let b = (self.d[self.pos >> 3] >> (self.pos & 7)) & 1;
            v |= (b as u32) << i;
            self.pos += 1;
        }
        Some(v)
    }
}

/// Canonical Huffman code in count/symbol form (RFC 1951 3.2.2).
struct Code {
    count: [u16; 16],
    symbol: Vec<u16>,
    max_len: u32,
}

enum Kraft {
    Complete,
    Incomplete,
    Over,
}

fn build(lens: &[u8]) -> (Code, Kraft) {
    let mut count = [0u16; 16];
    for &l in lens {
        count[l as usize] += 1;
    }
    let mut max_len = 0;
    for l in 1..16 {
        if count[l] > 0 {
            max_len = l as u32;
        }
    }
    let mut left: i64 = 1;
    let mut over = false;
    for l in 1..16 {
        left <<= 1;
        left -= count[l] as i64;
        if left < 0 {
            over = true;
            break;
        }
    }
    let mut offs = [0u16; 16];
    for l in 1..15 {
        offs[l + 1] = offs[l] + count[l];
    }
    let n_used: usize = (1..16).map(|l| count[l] as usize).sum();
    let mut symbol = vec![0u16; n_used];
    for (s, &l) in lens.iter().enumerate() {
        if l != 0 {
            symbol[offs[l as usize] as usize] = s as u16;
            offs[l as usize] += 1;
        }
    }
    let k = if over {
        Kraft::Over
    } else if left > 0 {
        Kraft::Incomplete
    } else {
        Kraft::Complete
    };
    (Code { count, symbol, max_len }, k)
}

enum Dec {
    Sym(u16),
    Short,
    Unused,
}

#[inline]
fn decode(b: &mut Bits, c: &Code) -> Dec {
    let mut code: i32 = 0;
    let mut first: i32 = 0;
    let mut index: i32 = 0;
    for len in 1..16 {
        let bit = match b.bit() {
            Some(x) => x as i32,
            None => return Dec::Short,
        };
        code |= bit;
        let count = c.count[len] as i32;
        if code - count < first {
            return Dec::Sym(c.symbol[(index + (code - first)) as usize]);
        }
        if len as u32 >= c.max_len {
            // every code of the (incomplete) set is at most max_len bits long: this bit pattern is unused
            return Dec::Unused;
        }
        index += count;
        first += count;
        first <<= 1;
        code <<= 1;
    }
    Dec::Unused
}

struct Tables {
    len_base: [u16; 29],
    len_extra: [u8; 29],
    dist_base: [u32; 30],
    dist_extra: [u8; 30],
}

fn tables() -> Tables {
    // RFC 1951 3.2.5: length codes 257..264 have 0 extra bits and cover 3..10; afterwards groups of
    // four codes share an extra-bit count that grows by one per group; code 285 is 258 with 0 bits.
    let mut len_base = [0u16; 29];
    let mut len_extra = [0u8; 29];
    let mut v = 3u16;
    for i in 0..28 {
        let e = if i < 8 { 0 } else { (i as u8 - 4) / 4 };
        len_base[i] = v;
        len_extra[i] = e;
        v += 1 << e;
    }
    len_base[28] = 258;
    len_extra[28] = 0;
    // Distance codes 0..3 have 0 extra bits, then pairs of codes share a count growing by one.
    let mut dist_base = [0u32; 30];
    let mut dist_extra = [0u8; 30];
    let mut d = 1u32;
    for i in 0..30 {
        let e = if i < 4 { 0 } else { (i as u8 - 2) / 2 };
        dist_base[i] = d;
        dist_extra[i] = e;
        d += 1 << e;
    }
    Tables { len_base, len_extra, dist_base, dist_extra }
}

pub fn adler32_def(start: u32, data: &[u8]) -> u32 {
    let mut a = start & 0xFFFF;
    let mut s = start >> 16;
    for &b in data {
        a = (a + b as u32) % 65521;
        s = (s + a) % 65521;
    }
    (s << 16) | a
}

pub fn crc32_def(start: u32, data: &[u8]) -> u32 {
    let mut c = !start;
    for &b in data {
        c ^= b as u32;
        for _ in 0..8 {
            c = if c & 1 != 0 { (c >> 1) ^ 0xEDB8_8320 } else { c >> 1 };
        }
    }
    !c
}

const CL_ORDER: [usize; 19] = [16, 17, 18, 0, 8, 7, 9, 6, 10, 5, 11, 4, 12, 3, 13, 2, 14, 1, 15];

pub fn inflate(data: &[u8], o: &Opts) -> Res {
    let t = tables();
    let mut r = Res {
        verdict: Verdict::Short,
        at_bit: 0,
        out: Vec::new(),
        blocks: Vec::new(),
        tokens: Vec::new(),
        max_dist: 0,
        min_match_len: usize::MAX,
        n_matches: 0,
        consumed: 0,
        cmf: 0,
        flg: 0,
        adler_stored: 0,
        adler_calc: 1,
        unspecified: false,
        no_eob_code: false,
        prehistory_reads: 0,
        dist_exceeds_declared: false,
        deflate_end: 0,
    };
    let v = run(data, o, &t, &mut r);
    r.verdict = v;
    if o.zlib && r.max_dist > 0 && data.len() >= 1 {
        let w = 1usize << ((r.cmf >> 4) as usize + 8).min(20);
        if r.max_dist > w {
            r.dist_exceeds_declared = true;
            r.unspecified = true;
        }
    }
    r
}

fn run(data: &[u8], o: &Opts, t: &Tables, r: &mut Res) -> Verdict {
    let mut hdr = 0usize;
    if o.zlib {
        if data.is_empty() {
            r.at_bit = 0;
            return Verdict::Short;
        }
        r.cmf = data[0];
        if data.len() < 2 {
            r.at_bit = 8;
            if r.cmf & 15 != 8 || (r.cmf >> 4) > 7 {
                // one byte whose method / window field already rules out every valid continuation: a decoder may
                // reject it at once or wait for the second header byte - neither is constrained (not alarmed)
                r.unspecified = true;
            }
            return Verdict::Short;
        }
        r.flg = data[1];
        r.at_bit = 16;
        let cmf = r.cmf as u32;
        let flg = r.flg as u32;
        if (cmf * 256 + flg) % 31 != 0 {
            return Verdict::Invalid("zlib.fcheck");
        }
        if flg & 0x20 != 0 {
            return Verdict::Invalid("zlib.fdict");
        }
        if cmf & 15 != 8 {
            return Verdict::Invalid("zlib.cm");
        }
        if (cmf >> 4) > 7 {
            return Verdict::Invalid("zlib.cinfo");
        }
        if let Some((n, _)) = o.ring {
            if n < (1usize << ((cmf >> 4) + 8)) {
                return Verdict::Invalid("zlib.window_exceeds_ring");
            }
        }
        hdr = 2;
    }
    let mut b = Bits { d: &data[hdr..], pos: 0 };
    let v = blocks(&mut b, o, t, r);
    r.at_bit = hdr * 8 + b.pos;
    if v != Verdict::Valid {
        if o.zlib {
            r.adler_calc = adler32_def(1, &r.out);
        }
        return v;
    }
    // end of deflate data: skip to byte boundary
    let end_byte = hdr + (b.pos + 7) / 8;
    r.deflate_end = end_byte;
    if o.zlib {
        r.adler_calc = adler32_def(1, &r.out);
        if data.len() < end_byte + 4 {
            r.at_bit = data.len() * 8;
            return Verdict::Short;
        }
        let a = &data[end_byte..end_byte + 4];
        r.adler_stored = u32::from_be_bytes([a[0], a[1], a[2], a[3]]);
        r.consumed = end_byte + 4;
        r.at_bit = r.consumed * 8;
        if !o.ignore_adler && r.adler_stored != r.adler_calc {
            return Verdict::Invalid("zlib.adler32");
        }
    } else {
        r.consumed = end_byte;
    }
    Verdict::Valid
}

fn fixed_lens() -> (Vec<u8>, Vec<u8>) {
    let mut ll = vec![0u8; 288];
    for (i, l) in ll.iter_mut().enumerate() {
        *l = if i < 144 {
            8
        } else if i < 256 {
            9
        } else if i < 280 {
            7
        } else {
            8
        };
    }
    (ll, vec![5u8; 32])
}

fn blocks(b: &mut Bits, o: &Opts, t: &Tables, r: &mut Res) -> Verdict {
    loop {
        let start_bit = b.pos;
        let h = match b.bits(3) {
            Some(h) => h,
            None => return Verdict::Short,
        };
        let bfinal = h & 1 != 0;
        let btype = (h >> 1) as u8;
        let mut blk = Block {
            btype,
            bfinal,
            start_bit,
            out_start: r.out.len(),
            tok_start: r.tokens.len(),
            ..Default::default()
        };
        let v = match btype {
            0 => stored(b, o, r, &mut blk),
            1 => {
                // the fixed code is the same for every block: built once per thread (streams of 10^5 tiny
                // fixed blocks - Partial-flush markers - are decoded dozens of times per run in C12)
                thread_local! {
                    static FIXED: (Code, Code) = {
                        let (ll, d) = fixed_lens();
                        (build(&ll).0, build(&d).0)
                    };
                }
                FIXED.with(|f| codes(b, o, t, r, &f.0, &f.1))
            }
            2 => dynamic(b, o, t, r, &mut blk),
            _ => Verdict::Invalid("btype3"),
        };
        blk.end_bit = b.pos;
        blk.out_end = r.out.len();
        blk.tok_end = r.tokens.len();
        blk.complete = v == Verdict::Valid;
        r.blocks.push(blk);
        if v != Verdict::Valid {
            return v;
        }
        if bfinal {
            return Verdict::Valid;
        }
    }
}

fn stored(b: &mut Bits, o: &Opts, r: &mut Res, blk: &mut Block) -> Verdict {
    // skip to byte boundary
    b.pos = (b.pos + 7) & !7;
    if b.pos > b.d.len() * 8 {
        b.pos = b.d.len() * 8;
    }
    let len = match b.bits(16) {
        Some(x) => x,
        None => return Verdict::Short,
    };
    let nlen = match b.bits(16) {
        Some(x) => x,
        None => return Verdict::Short,
    };
    if len != (!nlen & 0xFFFF) {
        return Verdict::Invalid("stored.len_nlen");
    }
    blk.stored_len = len;
    let byte = b.pos / 8;
    let avail = b.d.len() - byte;
    let n = (len as usize).min(avail);
    if r.out.len() + n > o.max_out {
        return Verdict::TooBig;
    }
    r.out.extend_from_slice(&b.d[byte..byte + n]);
    if o.tokens {
        for &x in &b.d[byte..byte + n] {
            r.tokens.push(Tok::Lit(x));
        }
    }
    b.pos += n * 8;
    if n < len as usize {
        return Verdict::Short;
    }
    Verdict::Valid
}

fn dynamic(b: &mut Bits, o: &Opts, t: &Tables, r: &mut Res, blk: &mut Block) -> Verdict {
    let hlit = match b.bits(5) {
        Some(x) => x as usize + 257,
        None => return Verdict::Short,
    };
    let hdist = match b.bits(5) {
        Some(x) => x as usize + 1,
        None => return Verdict::Short,
    };
    let hclen = match b.bits(4) {
        Some(x) => x as usize + 4,
        None => return Verdict::Short,
    };
    blk.hlit = hlit as u16;
    blk.hdist = hdist as u16;
    blk.hclen = hclen as u16;
    if hlit > 286 || hdist > 30 {
        return Verdict::Invalid("dyn.table_sizes");
    }
    let mut cl = [0u8; 19];
    for i in 0..hclen {
        cl[CL_ORDER[i]] = match b.bits(3) {
            Some(x) => x as u8,
            None => return Verdict::Short,
        };
    }
    blk.cl_lens = cl.to_vec();
    let (clc, k) = build(&cl);
    match k {
        Kraft::Complete => {}
        Kraft::Over => return Verdict::Invalid("dyn.cl_oversubscribed"),
        Kraft::Incomplete => return Verdict::Invalid("dyn.cl_incomplete"),
    }
    let total = hlit + hdist;
    let mut lens = vec![0u8; total];
    let mut i = 0;
    while i < total {
        let s = match decode(b, &clc) {
            Dec::Sym(s) => s,
            Dec::Short => return Verdict::Short,
            Dec::Unused => return Verdict::Invalid("dyn.cl_unused_code"),
        };
        if s < 16 {
            lens[i] = s as u8;
            i += 1;
        } else {
            let (val, rep) = match s {
                16 => {
                    if i == 0 {
                        return Verdict::Invalid("dyn.repeat_no_prev");
                    }
                    let e = match b.bits(2) {
                        Some(x) => x,
                        None => return Verdict::Short,
                    };
                    (lens[i - 1], 3 + e as usize)
                }
                17 => {
                    let e = match b.bits(3) {
                        Some(x) => x,
                        None => return Verdict::Short,
                    };
                    (0, 3 + e as usize)
                }
                _ => {
                    let e = match b.bits(7) {
                        Some(x) => x,
                        None => return Verdict::Short,
                    };
                    (0, 11 + e as usize)
                }
            };
            if i + rep > total {
                return Verdict::Invalid("dyn.run_overflows");
            }
            for _ in 0..rep {
                lens[i] = val;
                i += 1;
            }
        }
    }
    blk.ll_lens = lens[..hlit].to_vec();
    blk.d_lens = lens[hlit..].to_vec();
    if blk.ll_lens[256] == 0 {
        r.no_eob_code = true;
        r.unspecified = true;
    }
    // The crate builds (and therefore checks) the distance code before the literal/length code;
    // zlib checks literal/length first. Both reject the block at the same input position, and only
    // the rule name differs, so the order here is immaterial for verdicts.
    let (lc, lk) = build(&blk.ll_lens);
    match lk {
        Kraft::Over => return Verdict::Invalid("dyn.ll_oversubscribed"),
        Kraft::Incomplete if lc.max_len > 1 => return Verdict::Invalid("dyn.ll_incomplete"),
        _ => {}
    }
    let (dc, dk) = build(&blk.d_lens);
    match dk {
        Kraft::Over => return Verdict::Invalid("dyn.d_oversubscribed"),
        Kraft::Incomplete if dc.max_len > 1 => return Verdict::Invalid("dyn.d_incomplete"),
        _ => {}
    }
    codes(b, o, t, r, &lc, &dc)
}

fn codes(b: &mut Bits, o: &Opts, t: &Tables, r: &mut Res, lc: &Code, dc: &Code) -> Verdict {
    loop {
        let s = match decode(b, lc) {
            Dec::Sym(s) => s as usize,
            Dec::Short => return Verdict::Short,
            Dec::Unused => return Verdict::Invalid("ll.unused_code"),
        };
        if s < 256 {
            if r.out.len() + 1 > o.max_out {
                return Verdict::TooBig;
            }
            r.out.push(s as u8);
            if o.tokens {
                r.tokens.push(Tok::Lit(s as u8));
            }
            continue;
        }
        if s == 256 {
            return Verdict::Valid;
        }
        if s > 285 {
            return Verdict::Invalid("ll.symbol_286_287");
        }
        let li = s - 257;
        let mut len = t.len_base[li] as usize;
        let le = t.len_extra[li] as u32;
        if le > 0 {
            let e = match b.bits(le) {
                Some(x) => x as usize,
                None => return Verdict::Short,
            };
            len += e;
            if s == 284 && e == 31 {
                // 227 + 31 = 258: outside the RFC's stated range for code 284, accepted by zlib.
                r.unspecified = true;
            }
        }
        let ds = match decode(b, dc) {
            Dec::Sym(s) => s as usize,
            Dec::Short => return Verdict::Short,
            Dec::Unused => return Verdict::Invalid("d.unused_code"),
        };
        if ds > 29 {
            return Verdict::Invalid("d.symbol_30_31");
        }
        let mut dist = t.dist_base[ds] as usize;
        let de = t.dist_extra[ds] as u32;
        if de > 0 {
            let e = match b.bits(de) {
                Some(x) => x as usize,
                None => return Verdict::Short,
            };
            dist += e;
        }
        let produced = r.out.len();
        match o.ring {
            None => {
                if dist > produced {
                    return Verdict::Invalid("dist.before_start");
                }
            }
            Some((n, _)) => {
                if dist > n {
                    return Verdict::Invalid("dist.exceeds_ring");
                }
            }
        }
        if produced + len > o.max_out {
            return Verdict::TooBig;
        }
        if dist > r.max_dist {
            r.max_dist = dist;
        }
        if len < r.min_match_len {
            r.min_match_len = len;
        }
        r.n_matches += 1;
        if o.tokens {
            r.tokens.push(Tok::Match { len: len as u16, dist: dist as u16 });
        }
        for _ in 0..len {
            let p = r.out.len();
            let byte = if dist <= p {
                r.out[p - dist]
            } else {
                let (n, init) = o.ring.unwrap();
                r.prehistory_reads += 1;
                // virtual index p - dist (negative) maps to ring index (p - dist) mod n
                let idx = (p + n * ((dist / n) + 1) - dist) % n;
                init[idx]
            };
            r.out.push(byte);
        }
    }
}
