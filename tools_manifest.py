#!/usr/bin/env python3
"""Regenerates MANIFEST.json from the table below (kept as code so that it stays consistent)."""
import json, os
HERE = os.path.dirname(os.path.abspath(__file__))

BASELINE_OFF = "cd /repo && cargo test --workspace --no-fail-fast --offline"

CHECKS = {
 "C02": ("exploration", "4.2", "seeded schedule search over the real streaming compressor (pipe scenario), reference-inflater oracle",
         "Seeded search over call schedules (chunking incl. empty chunks, output grants down to 1 byte, buffer or callback sink, all flush modes, Finish sticky) and configurations (4 constructors, setters before the stream, reuse after reset) of the real CompressorOxide through compress / compress_to_output / deflate, plus deterministic families (block-boundary calls, lazy-match chains on self-flush positions, a flush after every input position of short inputs, all 4096 phases of the code-buffer-full instant); every run is decoded by an independent reference inflater and compared with the input, with count and liveness invariants after every call. Sampling, not proof."),
 "C03": ("exploration", "4.3", "grammar-driven foreign encoder x delivery schedules over all decoder entry points, reference-inflater oracle",
         "Fault-free configuration of the decoder simulation: grammar-built valid streams (constructs miniz never emits) and crate-built streams are delivered under seeded schedules to every decoder entry point, with the ignore-checksum and stop-at-block-boundary flags and decoder objects that served an earlier (possibly failed or abandoned) stream as further dimensions; strict equality with generator ground truth and the reference inflater."),
 "C04": ("fault_enumeration", "4.4", "channel fault injection (truncate/flip/insert/delete/dup/swap, targeted RFC violations) x schedules, verdict vs reference inflater",
         "Fault-injecting configuration: mutated and grammar-built invalid streams under seeded chunkings; the real decoder's accept/reject verdict, output and consumed count are compared with the reference inflater (ring semantics in ring mode); pure truncations must never be rejected as corrupt."),
 "C05": ("fault_enumeration", "4.5", "arbitrary bytes x arbitrary call histories on one decoder object, release and debug builds, process watchdog",
         "Totality under chaos: arbitrary inputs, flag sets, output geometries and call histories in both build profiles, with process-level detection of panics, aborts and non-termination (CPU-time watchdog); failures incl. checksum mismatches are absorbing."),
 "C06": ("fault_enumeration", "4.6", "trailing-garbage channel fault x cut points around the stream end, exact-length oracle",
         "Valid streams followed by unrelated bytes, delivered with cuts around the stream end to the core decoder (flat, ring) and inflate(); total consumed must equal the generator's exact encoded length."),
 "C07": ("exploration", "4.7", "suspend/resume schedule families (all single cuts, k-byte feeding, all budgets) + seeded partitions vs one-call run of the same decoder",
         "Deterministic schedule families on short streams (every cut, every pair of cuts, every first-call budget, the cut x budget grid, k-byte feeding, constant budgets) plus seeded random partitions/budgets on longer ones, over the core decoder (flat, rings 2^k up to 2^17), inflate() and the slice-iterator helper; output, verdict and consumed are compared with the one-call run of the same real decoder."),
 "C08": ("exploration", "4.8", "canary-painted output buffers and per-call budgets under seeded schedules",
         "Every decode call is bracketed by a full comparison of the output slice against a shadow copy; status truthfulness and the limit semantics of the vector functions are asserted."),
 "C09": ("fault_enumeration", "4.9", "exhaustive 65536-header sweep x buffer modes + trailer/body corruption under schedules; producer-side header/trailer probes",
         "All two-byte zlib headers in front of a valid body for flat and every ring size 2^8..2^17; trailer and body corruption under chunked delivery; producer side checked on every zlib-format compressor run."),
 "C10": ("exploration", "4.10", "token trace of compressor output under schedules, reference inflater + system zlib as independent decoders",
         "Everything any compressor driver emits is parsed by the reference inflater (token level) and by system zlib; mode clauses (stored-only, fixed, huffman-only, RLE, filtered) and the redundancy clause are evaluated on the trace."),
 "C11": ("exploration", "4.11", "pipeline with a window-limited consumer (zlib inflateInit2(0), crate ring decoder of the declared size)",
         "The compressor (created with window_bits 1..15, optionally reconfigured through the setters or reused after reset) is run on inputs with planted far repeats, on periodic data whose only redundancy lies just beyond the window (300-600 KB streams, and all 4096 phases of the self-initiated block flush); the declared window is compared with the maximum distance of the token trace and two bounded-memory decoders must finish."),
 "C12": ("exploration", "4.12", "flush operations at scheduler-chosen instants, prefix decode by the reference inflater",
         "For every qualifying flush the bytes emitted so far are decoded on their own; full flushes are additionally checked by decoding the remainder with empty history."),
 "C13": ("exploration", "4.13", "call-history search on inflate() (bounded-depth enumeration + seeded random), protocol invariants and bounded liveness",
         "Protocol invariants lifted from the statement are checked after every call of seeded and enumerated histories on valid, truncated, corrupt and trailing-byte streams."),
 "C14": ("exploration", "4.14", "call-history search on deflate() (bounded-depth enumeration + seeded random), protocol invariants and bounded liveness",
         "Protocol invariants of the streaming compressor wrapper under seeded and enumerated histories incl. output buffers smaller than a flush marker; stream end is due exactly on the call that delivers the last byte; the self-initiated block flush is swept through its phases via deflate(); 20 % of the runs also in the debug profile."),
 "C16": ("exploration", "4.16", "checksum updates under seeded/swept split schedules, running-checksum probes in pipe/dec runs, scalar vs simd digests",
         "Incremental checksum calls under split schedules against bytewise definitions, including seeds and inputs constructed so that the Adler-32 is 0, 1 or has a zero half; running checksums of compressor, decoder and C stream probed after every simulated step; scalar and simd builds compared."),
 "C17": ("fault_enumeration", "4.17", "C ABI lock-step simulation with guard-page buffers, misuse operations, child-process isolation",
         "Every exported C function (mz_* stream and one-shot calls, tdefl_*, tinfl_* incl. the alloc/init/get_adler32 helpers, checksum and allocator callbacks) is driven in lock step with the Rust API with every buffer placed against PROT_NONE pages; misuse operations must return error codes; crashes are observed at process level."),
 "C18": ("exploration", "4.18", "random prior history -> reset -> lock-step with a fresh object",
         "Objects with arbitrary prior histories (abandoned, failed, corrupt streams; chains of two resets) are reset and compared call by call with freshly constructed ones."),
 "C19": ("fault_enumeration", "4.19", "crash/restart of the decoder node from clone, serde image or block-boundary record at every suspension point",
         "The decoder is killed between calls and restarted from a snapshot; the continuation must equal the uninterrupted run."),
}

NOT_APPLICABLE = [
 ("C01", "pure function of (input, level, format): one call on each side, no schedule, fault, crash point or history for a simulator to vary; input generation must not be dressed up as simulation (DESIGN 4.1)"),
 ("C15", "arithmetic bound vs a pure single-call function of the input; deciding it is an adversarial input search, a different technique (DESIGN 4.15)"),
 ("C20", "property of program text and build graph (forbid(unsafe_code), no_std feature gating, auto traits); no execution can observe it (DESIGN 4.20)"),
]

def main():
    impl = [l.strip() for l in open(os.path.join(HERE, "IMPLEMENTED")).read().split() if l.strip()]
    checks = []
    for pid in sorted(impl):
        level, ref, tech, text = CHECKS[pid]
        checks.append({
            "property_id": pid,
            "quick_cmd": "./check %s quick" % pid,
            "thorough_cmd": "./check %s thorough" % pid,
            "evidence_file": "evidence/%s.json" % pid,
            "replay_cmd_template": "./check replay {path}",
            "engine": "mzsim",
            "level_claimed": {"category": level, "text": text, "design_ref": "DESIGN.md " + ref},
            "level_note": "Trusted base: the harness-side reference inflater and foreign encoder (cross-checked against system zlib 1.2.13 by ./check selftest), the seeded sampler (a clean batch is evidence, not proof), x86-64 only. Real code: both crates in full.",
            "technique": "deterministic simulation with fault injection: " + tech,
        })
    na = list(NOT_APPLICABLE)
    for pid in sorted(CHECKS):
        if pid not in impl:
            na.append((pid, "not yet claimed at this commit: the %s scenario of DESIGN.md %s is still being built" % (pid, CHECKS[pid][1])))
    m = {
        "version": 1,
        "setup_cmd": "./check build",
        "hooks": {
            "guard": "miniz_oxide_verif",
            "enable": "none needed: every schedule- and fault-relevant input enters through public API arguments; automaton state is observed through the crate's own serde feature (no cfg is set)",
            "baseline_off_cmd": BASELINE_OFF,
            "source_commits": json.load(open(os.path.join(HERE, "known_findings.json"))).get("source_commits", []) if os.path.exists(os.path.join(HERE, "known_findings.json")) else [],
            "add_only": True,
        },
        "engines": [{"name": "mzsim", "path": "sim/", "serves_properties": sorted(impl), "kind_free_text": "deterministic simulator: seeded script generator, pure script executor driving the real crates, worker processes + watchdog, shrinker, replay files"}],
        "checks": checks,
        "not_applicable": [{"property_id": p, "reason": r} for p, r in sorted(na)],
        "notes": "VERIF_SEED default 1. Exit 2 = harness error. Known findings: known_findings.json. See DESIGN.md.",
    }
    with open(os.path.join(HERE, "MANIFEST.json"), "w") as f:
        json.dump(m, f, indent=1)
        f.write("\n")

main()
