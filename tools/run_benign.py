#!/usr/bin/env python3
"""False-alarm test: applies every behaviour-changing but property-preserving change under
/verif/benign to a scratch worktree of /repo (never to /repo itself) and runs EVERY claimed quick
check against it. Every check must exit 0. Writes benign/RESULTS.md.
usage: tools/run_benign.py [--scale F] [--checks C02,C13] [ids...]"""
import json, os, subprocess, sys, re, shutil
V = os.path.dirname(os.path.dirname(os.path.abspath(__file__)))
RUNDIR = "/tmp/benignrun-%d" % os.getpid()
WT = RUNDIR + "/wt"
argv = sys.argv[1:]
scale = "0.3"
only = None
ids = []
i = 0
while i < len(argv):
    if argv[i] == "--scale":
        scale = argv[i + 1]; i += 2
    elif argv[i] == "--checks":
        only = argv[i + 1].split(","); i += 2
    else:
        ids.append(argv[i]); i += 1
ids = ids or sorted(d for d in os.listdir(V + "/benign") if os.path.isdir(V + "/benign/" + d))
claimed = [c["property_id"] for c in json.load(open(V + "/MANIFEST.json"))["checks"]]
checks = only or claimed
subprocess.run(["git", "-C", "/repo", "worktree", "prune"])
if not os.path.isdir(WT):
    os.makedirs(RUNDIR, exist_ok=True)
    subprocess.run(["git", "-C", "/repo", "worktree", "add", "--detach", WT, "HEAD", "-q"], check=True)
env = dict(os.environ)
env.update({"VERIF_REPO": WT, "VERIF_EVIDENCE_DIR": RUNDIR + "/evidence", "VERIF_REPLAY_DIR": RUNDIR + "/replays", "VERIF_RUNS_SCALE": scale, "VERIF_ALT_DIR": RUNDIR + "/sim"})
head = subprocess.check_output(["git", "-C", "/repo", "rev-parse", "HEAD"], text=True).strip()
rows = []
for b in ids:
    d = V + "/benign/" + b
    subprocess.run(["git", "-C", WT, "reset", "-q", "--hard", "HEAD"], check=True)
    subprocess.run(["git", "-C", WT, "checkout", "-q", "--detach", head], check=True)
    if subprocess.run(["git", "-C", WT, "apply", d + "/patch.diff"]).returncode != 0:
        rows.append((b, "PATCH DOES NOT APPLY")); continue
    alarms = []
    for c in checks:
        p = subprocess.run([V + "/check", c, "quick"], env=env, cwd=V, stdout=subprocess.PIPE, stderr=subprocess.STDOUT, text=True)
        m = re.search(r"^check: clause (\S+(?:\[[^\]]*\])?)[^\n]*", p.stdout, re.M)
        print(b, c, "rc=%d" % p.returncode, (m.group(0)[:300] if m else ""), flush=True)
        if p.returncode != 0:
            alarms.append("%s:%s" % (c, m.group(1) if m else ("exit %d" % p.returncode)))
            keep = "/var/tmp/benign-alarms/%s-%s" % (b, c)
            os.makedirs(keep, exist_ok=True)
            open(keep + "/log.txt", "w").write(p.stdout)
            for f in os.listdir(RUNDIR + "/replays"):
                if f.startswith(c + "-"):
                    shutil.copy(RUNDIR + "/replays/" + f, keep)
    meta = json.load(open(d + "/meta.json"))
    meta["alarms"] = alarms
    meta["ran"] = "tools/run_benign.py (VERIF_RUNS_SCALE=%s, checks: %s) on a scratch worktree with the patch applied" % (scale, ",".join(checks))
    json.dump(meta, open(d + "/meta.json", "w"), indent=1)
    rows.append((b, ", ".join(alarms) or "silent (all %d checks exit 0)" % len(checks)))
subprocess.run(["git", "-C", "/repo", "worktree", "remove", "--force", WT])
shutil.rmtree(RUNDIR, ignore_errors=True)
if not only and len(ids) > 1:
    with open(V + "/benign/RESULTS.md", "w") as f:
        f.write("| benign change | result of every claimed quick check |\n|---|---|\n")
        for b, t in rows:
            f.write("| %s | %s |\n" % (b, t))
if os.environ.get("BENIGN_OUT"):
    json.dump([{"id": b, "result": t} for b, t in rows], open(os.environ["BENIGN_OUT"], "w"), indent=1)
for b, t in rows:
    print(b, "->", t)
