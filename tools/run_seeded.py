#!/usr/bin/env python3
"""Runs the quick check(s) against every seeded change under /verif/seeded, each applied to a scratch
worktree of /repo (never to /repo itself), and records which check / clause detects it.
usage: tools/run_seeded.py [--all-checks] [ids...]"""
import json, os, subprocess, sys, re
V = os.path.dirname(os.path.dirname(os.path.abspath(__file__)))
RUNDIR = "/tmp/seedrun-%d" % os.getpid()
WT = RUNDIR + "/wt"
outjson = None
if "--out" in sys.argv:
    k = sys.argv.index("--out")
    outjson = sys.argv[k + 1]
    del sys.argv[k:k + 2]
args = [a for a in sys.argv[1:] if not a.startswith("--")]
allchecks = "--all-checks" in sys.argv
ids = args or sorted(os.listdir(V + "/seeded"))
ids = [i for i in ids if os.path.isdir(V + "/seeded/" + i)]
claimed = [c["property_id"] for c in json.load(open(V + "/MANIFEST.json"))["checks"]]
subprocess.run(["git", "-C", "/repo", "worktree", "prune"])
if not os.path.isdir(WT):
    os.makedirs(RUNDIR, exist_ok=True)
    subprocess.run(["git", "-C", "/repo", "worktree", "add", "--detach", WT, "HEAD", "-q"], check=True)
env = dict(os.environ)
env.update({"VERIF_REPO": WT, "VERIF_EVIDENCE_DIR": RUNDIR + "/evidence", "VERIF_REPLAY_DIR": RUNDIR + "/replays", "VERIF_RUNS_SCALE": os.environ.get("VERIF_RUNS_SCALE", "0.5"), "VERIF_ALT_DIR": RUNDIR + "/sim"})
rows = []
for i in ids:
    d = V + "/seeded/" + i
    meta = json.load(open(d + "/meta.json"))
    prop = meta["breaks_property"]
    subprocess.run(["git", "-C", WT, "reset", "-q", "--hard", "HEAD"], check=True)
    subprocess.run(["git", "-C", WT, "checkout", "-q", "--detach", subprocess.check_output(["git", "-C", "/repo", "rev-parse", "HEAD"], text=True).strip()], check=True)
    r = subprocess.run(["git", "-C", WT, "apply", d + "/patch.diff"])
    if r.returncode != 0:
        rows.append((i, prop, "PATCH DOES NOT APPLY", ""))
        continue
    det = []
    for c in (claimed if allchecks else [prop]):
        p = subprocess.run([V + "/check", c, "quick"], env=env, cwd=V, stdout=subprocess.PIPE, stderr=subprocess.STDOUT, text=True)
        m = re.search(r"^check: clause (\S+(?:\[[^\]]*\])?)", p.stdout, re.M)
        if p.returncode == 1:
            det.append({"check": c, "clause": m.group(1) if m else "?"})
        elif p.returncode != 0:
            det.append({"check": c, "clause": "HARNESS-ERROR rc=%d" % p.returncode})
        print(i, c, "rc=%d" % p.returncode, m.group(1) if m else "", flush=True)
    meta["detected_by"] = det if not allchecks else det
    meta["ran"] = "tools/run_seeded.py%s (VERIF_RUNS_SCALE=%s, VERIF_SEED default) on a scratch worktree with the patch applied" % (" --all-checks" if allchecks else "", env["VERIF_RUNS_SCALE"])
    json.dump(meta, open(d + "/meta.json", "w"), indent=1)
    rows.append((i, prop, ", ".join("%s:%s" % (x["check"], x["clause"]) for x in det) or "NOT DETECTED", ""))
subprocess.run(["git", "-C", "/repo", "worktree", "remove", "--force", WT])
import shutil
shutil.rmtree(RUNDIR, ignore_errors=True)
if outjson:
    json.dump([{"id": i, "property": p, "detected": d} for i, p, d, _ in rows], open(outjson, "w"), indent=1)
with open(V + "/seeded/RESULTS.md", "w") as f:
    f.write("| seeded change | breaks | detected by (check:clause) |\n|---|---|---|\n")
    for i, p, dtxt, _ in rows:
        f.write("| %s | %s | %s |\n" % (i, p, dtxt))
print("done")
