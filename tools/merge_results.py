#!/usr/bin/env python3
"""Builds seeded/RESULTS.md and benign/RESULTS.md (and the `detected_by` / `alarms` fields of every meta.json)
from the logs of tools/run_seeded.py and tools/run_benign.py runs (which may have run in `vp run` snapshots, in
parallel, over disjoint id sets).
usage: tools/merge_results.py --commit <harness commit> --seeded <log>... --benign <log>..."""
import json, os, re, sys
V = os.path.dirname(os.path.dirname(os.path.abspath(__file__)))
args = sys.argv[1:]
commit = "?"
seeded_logs, benign_logs = [], []
cur = None
i = 0
while i < len(args):
    if args[i] == "--commit":
        commit = args[i + 1]; i += 2; continue
    if args[i] == "--seeded":
        cur = seeded_logs
    elif args[i] == "--benign":
        cur = benign_logs
    else:
        cur.append(args[i])
    i += 1

line = re.compile(r"^(\S+) (C\d\d) rc=(-?\d+) ?(.*)$")
# ---- seeded ----
det = {}
for lg in seeded_logs:
    for l in open(lg, errors="replace"):
        m = line.match(l.strip())
        if m and os.path.isdir(V + "/seeded/" + m.group(1)):
            sid, chk, rc, clause = m.group(1), m.group(2), int(m.group(3)), m.group(4).strip()
            det.setdefault(sid, {})[chk] = (rc, clause)
if det:
    rows = []
    for sid in sorted(os.listdir(V + "/seeded")):
        d = V + "/seeded/" + sid
        if not os.path.isdir(d):
            continue
        meta = json.load(open(d + "/meta.json"))
        prop = meta["breaks_property"]
        r = det.get(sid)
        if r is None:
            rows.append((sid, prop, "not run in this pass"))
            continue
        hits = [{"check": c, "clause": cl or "?"} for c, (rc, cl) in sorted(r.items()) if rc == 1]
        errs = ["%s: exit %d" % (c, rc) for c, (rc, cl) in sorted(r.items()) if rc not in (0, 1)]
        meta["detected_by"] = hits
        meta["ran"] = "tools/run_seeded.py (quick check of the broken property, VERIF_RUNS_SCALE=0.5, VERIF_SEED=1) on a scratch worktree with the patch applied; harness commit %s" % commit
        json.dump(meta, open(d + "/meta.json", "w"), indent=1)
        txt = ", ".join("%s:%s" % (h["check"], h["clause"]) for h in hits) or "NOT DETECTED"
        if errs:
            txt += " [" + "; ".join(errs) + "]"
        rows.append((sid, prop, txt))
    with open(V + "/seeded/RESULTS.md", "w") as f:
        f.write("Quick check of the broken property against every archived seeded change (harness commit %s, half the quick run count, default seed).\n\n" % commit)
        f.write("| seeded change | breaks | detected by (check:clause) |\n|---|---|---|\n")
        for r in rows:
            f.write("| %s | %s | %s |\n" % r)
    nd = [r for r in rows if "NOT DETECTED" in r[2] or "not run" in r[2]]
    print("seeded: %d rows, %d not detected / not run: %s" % (len(rows), len(nd), [r[0] for r in nd]))

# ---- benign ----
ben = {}
for lg in benign_logs:
    for l in open(lg, errors="replace"):
        m = line.match(l.strip())
        if m and os.path.isdir(V + "/benign/" + m.group(1)):
            ben.setdefault(m.group(1), {})[m.group(2)] = (int(m.group(3)), m.group(4).strip())
if ben:
    rows = []
    for bid in sorted(os.listdir(V + "/benign")):
        d = V + "/benign/" + bid
        if not os.path.isdir(d):
            continue
        r = ben.get(bid, {})
        alarms = ["%s (exit %d) %s" % (c, rc, cl[:160]) for c, (rc, cl) in sorted(r.items()) if rc != 0]
        meta = json.load(open(d + "/meta.json"))
        meta["alarms"] = alarms
        meta["checks_run"] = sorted(r.keys())
        meta["ran"] = "tools/run_benign.py (every listed quick check, VERIF_RUNS_SCALE=0.25, VERIF_SEED=1) on a scratch worktree with the patch applied; harness commit %s" % commit
        json.dump(meta, open(d + "/meta.json", "w"), indent=1)
        if not r:
            rows.append((bid, "not run in this pass"))
        elif alarms:
            rows.append((bid, "ALARM: " + "; ".join(alarms)))
        else:
            rows.append((bid, "silent (%d of 17 checks run, all exit 0)" % len(r)))
    with open(V + "/benign/RESULTS.md", "w") as f:
        f.write("Every claimed quick check against every benign (behaviour-changing, property-preserving) change (harness commit %s, a quarter of the quick run count, default seed). A check must stay silent.\n\n" % commit)
        f.write("| benign change | result |\n|---|---|\n")
        for r in rows:
            f.write("| %s | %s |\n" % r)
    print("benign: %d rows; alarms: %s" % (len(rows), [r[0] for r in rows if r[1].startswith("ALARM")]))
