#!/bin/bash
# usage: tools/try_w3.sh <prop> <A|B> [checks...]  - wave-3 mutant on a scratch worktree through VERIF_REPO
p=$1; m=$2; shift; shift
checks=${@:-$p}
WT=/tmp/w3run/wt
mkdir -p /tmp/w3run
git -C /repo worktree prune
[ -d $WT ] || git -C /repo worktree add --detach $WT HEAD -q
git -C $WT reset -q --hard $(git -C /repo rev-parse HEAD)
git -C $WT apply /tmp/mut/W3-$p/OUT/$m/patch.diff 2>/dev/null || git -C $WT apply --3way /tmp/mut/W3-$p/OUT/$m/patch.diff || { echo "patch does not apply"; exit 2; }
for c in $checks; do
  out=$(VERIF_REPO=$WT VERIF_EVIDENCE_DIR=/tmp/w3run/ev VERIF_REPLAY_DIR=/tmp/w3run/replays VERIF_ALT_DIR=/tmp/w3run/sim ./check $c ${TIER:-quick} 2>&1)
  rc=$?
  echo "== W3-$p-$m $c rc=$rc: $(echo "$out" | grep -E '^check: clause' | head -1 | cut -c1-300)"
done
