#!/bin/bash
# usage: tools/try_mutant.sh <patch.diff> <check id>...   (env VERIF_RUNS_SCALE etc. are passed through)
# Applies the patch to /repo, runs the given quick checks, and ALWAYS restores /repo afterwards.
set -u
patch="$1"; shift
cd /repo || exit 2
if ! git diff --quiet; then echo "try_mutant: /repo has uncommitted changes, refusing"; exit 2; fi
restore() { git -C /repo reset -q --hard HEAD ; }
trap restore EXIT
if ! git apply "$patch" 2>/dev/null; then
  if ! git apply --3way "$patch"; then echo "try_mutant: patch does not apply"; exit 2; fi
fi
cd /verif
for c in "$@"; do
  out=$(./check "$c" "${TIER:-quick}" 2>&1)
  rc=$?
  echo "== $c rc=$rc: $(echo "$out" | grep -E '^check: clause' | head -2 | cut -c1-400)"
  echo "$out" | grep -E "^(VIOLATION|KNOWN-FINDING|check: HARNESS)" | head -3
done
