#!/bin/bash
# usage: tools/coverage.sh [scale]        (default scale 0.01 of the quick run counts)
# Reach measurement at source level: builds the simulator with -C instrument-coverage (nightly toolchain,
# its llvm-tools), runs every claimed quick check at the given scale, merges the profiles and writes, for
# the REAL code only (the two crates under /repo), a per-file table and the list of lines never executed:
#   coverage/summary.txt    coverage/unreached.txt
# This is a measurement, not a check: it never fails a property. Scratch data lives in /var/tmp/mzcov.
set -u
V=$(cd "$(dirname "$0")/.." && pwd)
SCALE=${1:-0.01}
W=/var/tmp/mzcov
B=$(dirname "$(rustup +nightly which rustc)")/../lib/rustlib/x86_64-unknown-linux-gnu/bin
[ -x "$B/llvm-cov" ] || { echo "llvm-tools not found under $B"; exit 2; }
mkdir -p $W/prof $W/out "$V/coverage"
rm -f $W/prof/*.profraw
( cd "$V" && ./check build >/dev/null ) || exit 2      # renders sim/Cargo.toml
( cd "$V/sim" && LLVM_PROFILE_FILE=$W/prof/build-%p.profraw CARGO_NET_OFFLINE=true CARGO_TARGET_DIR=$W/target RUSTFLAGS="-C instrument-coverage" cargo +nightly build --release --offline --quiet ) || exit 2
for p in $(python3 -c "import json;print(' '.join(c['property_id'] for c in json.load(open('$V/MANIFEST.json'))['checks']))"); do
  known=$(python3 -c "import json;print(json.dumps([k for k in json.load(open('$V/known_findings.json'))['findings'] if k['property']=='$p']))")
  LLVM_PROFILE_FILE=$W/prof/$p-%p.profraw VERIF_RUNS_SCALE=$SCALE VERIF_REPLAY_DIR=$W/replays VERIF_KNOWN="$known" \
    $W/target/release/mzsim run $p quick 1 $W/out/$p.json > $W/out/$p.log 2>&1
  echo "coverage: $p exit $?"
done
$B/llvm-profdata merge -sparse $W/prof/*.profraw -o $W/all.profdata || exit 2
{
  echo "# source-level reach of the real code under the claimed quick checks at scale $SCALE (VERIF_SEED=1), $(git -C /repo rev-parse --short HEAD)"
  $B/llvm-cov report $W/target/release/mzsim -instr-profile=$W/all.profdata --ignore-filename-regex='(registry|rustc|/verif/|rustup|/var/tmp)' 2>/dev/null \
    | awk 'NR>2 && $1 !~ /^-/ {printf "%-46s regions %5s missed %5s %8s | lines %5s missed %5s %8s\n", $1, $2,$3,$4, $8,$9,$10}'
} > "$V/coverage/summary.txt"
: > "$V/coverage/unreached.txt"
for f in $(cd /repo && ls miniz_oxide/src/*.rs miniz_oxide/src/*/*.rs src/*.rs); do
  $B/llvm-cov show $W/target/release/mzsim -instr-profile=$W/all.profdata /repo/$f --show-line-counts-or-regions 2>/dev/null \
    | grep -E "^ +[0-9]+\| +0\|" | sed "s|^|$f:|" >> "$V/coverage/unreached.txt"
done
tail -1 "$V/coverage/summary.txt"
echo "coverage: $(wc -l < "$V/coverage/unreached.txt") unreached lines listed in coverage/unreached.txt"
