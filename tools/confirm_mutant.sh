#!/bin/bash
# usage: tools/confirm_mutant.sh <agent OUT/X dir> <seeded id> <property> [demo test-crate: miniz_oxide|root]
# Confirms in a scratch worktree (outside /repo and /verif) that the change compiles, passes the
# existing suite, and that its demonstration fails with the change and passes without it; then
# stores patch + demo + meta.json under /verif/seeded/<id>/.
set -u
src="$1"; id="$2"; prop="$3"; where="${4:-miniz_oxide}"
wt=/tmp/confirm-$id
dst=${DSTROOT:-/verif/seeded}/$id
rm -rf "$wt"; git -C /repo worktree prune
git -C /repo worktree add --detach "$wt" HEAD -q || exit 2
cleanup() { git -C /repo worktree remove --force "$wt" 2>/dev/null; rm -rf "$wt"; }
trap cleanup EXIT
cd "$wt" || exit 2
if ! git apply "$src/patch.diff" 2>/dev/null; then git apply --3way "$src/patch.diff" || { echo "$id: patch does not apply"; exit 2; }; fi
git diff HEAD > "$wt/rebased.diff"
suite=$(cargo test --workspace --no-fail-fast --offline 2>&1 | grep -E "^test result" | awk '{p+=$4; f+=$6} END {print p" passed "f" failed"}')
name=demo_$(echo $id | tr 'A-Z-' 'a-z_')
democmd() { cargo test -p $pkg --test $name --offline 2>&1; }
if [ "$where" = root ]; then tdir=tests; pkg=miniz_oxide_c_api;
elif [ "$where" = oxtest ]; then tdir=miniz_oxide_test/tests; pkg=miniz_oxide_test;
elif [ "$where" = bb ]; then tdir=miniz_oxide/tests; pkg=miniz_oxide; democmd() { cargo test --manifest-path miniz_oxide/Cargo.toml --features block-boundary --test $name --offline 2>&1; };
else tdir=miniz_oxide/tests; pkg=miniz_oxide; fi
cp "$src/demo.rs" "$tdir/$name.rs"
with=$(democmd | grep -E "^test result" | tail -1)
git checkout -q -- . 2>/dev/null; git reset -q --hard HEAD; cp "$src/demo.rs" "$tdir/$name.rs"
without=$(democmd | grep -E "^test result" | tail -1)
echo "$id: suite-with-patch: $suite | demo with patch: $with | demo without: $without"
ok=1
echo "$suite" | grep -q " 0 failed" || ok=0
echo "$with" | grep -q "FAILED" || ok=0
echo "$without" | grep -q "test result: ok" || ok=0
if [ $ok = 1 ]; then
  mkdir -p "$dst"
  cp "$wt/rebased.diff" "$dst/patch.diff"
  cp "$src/demo.rs" "$dst/demo.rs"
  [ -f "$src/README.md" ] && cp "$src/README.md" "$dst/AGENT_README.md"
  python3 - "$dst" "$id" "$prop" "$suite" "$with" "$without" "$tdir/$name.rs" "$pkg" <<'PY'
import json,sys
dst,id,prop,suite,w,wo,path,pkg=sys.argv[1:9]
import os
benign=os.environ.get("BENIGN")=="1"
meta={"id":id,("area" if benign else "breaks_property"):prop,"origin":("independent sub-agent given the 20 property statements and a scratch worktree; asked for a behaviour-changing change under which every property still holds (the demo pins the OLD behaviour: it proves the change is observable, not that a property is violated)" if benign else "independent sub-agent given only the property text and a scratch worktree"),
 "confirmed":{"existing_suite_with_patch":suite,"demo_with_patch":w,"demo_without_patch":wo,
  "demo_path_in_repo":path,"demo_cmd":"cargo test -p %s --test %s --offline"%(pkg,path.split('/')[-1][:-3]),
  "confirmed_in":"scratch worktree of /repo HEAD (with the fix: commit) under /tmp, removed afterwards"},
 "needs_to_manifest":"see AGENT_README.md","detected_by":[]}
json.dump(meta,open(dst+"/meta.json","w"),indent=1)
PY
  echo "$id: stored in $dst"
else
  echo "$id: NOT CONFIRMED"
fi
