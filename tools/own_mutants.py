#!/usr/bin/env python3
"""Sensitivity patches written by the author of the checks (DESIGN.md section 10), as opposed to the
independent ones under seeded/. Each is a textual replacement applied to a scratch worktree of /repo
(never to /repo itself); the existing suite is run first (a patch the suite catches is not a realistic
escape and is only recorded), then the named quick checks through VERIF_REPO.
usage: tools/own_mutants.py [ids...]"""
import json, os, re, subprocess, sys, shutil

V = "/verif"
BASE = "/tmp/ownmut"
WT = BASE + "/wt"
IC = "miniz_oxide/src/inflate/core.rs"
IS = "miniz_oxide/src/inflate/stream.rs"
IO = "miniz_oxide/src/inflate/output_buffer.rs"
DC = "miniz_oxide/src/deflate/core.rs"
DS = "miniz_oxide/src/deflate/stream.rs"
DZ = "miniz_oxide/src/deflate/zlib.rs"

# (id, checks, file, old, new, which occurrence (0-based) or None for "must be unique")
M = [
 ("C02-saved-match-len", ["C02"], DC, "                d.params.saved_match_len = saved_match_len;\n                return n > 0;", "                return n > 0;", None),
 ("C02-pending-off-by-one", ["C02"], DC, "&p.local_buf.b[p.flush_ofs as usize..p.flush_ofs as usize + n]", "&p.local_buf.b[p.flush_ofs as usize + 1..p.flush_ofs as usize + n + 1]", None),
 ("C02-header-skipped-on-leading-flush", ["C02", "C09"], DC, "d.params.flags & TDEFL_WRITE_ZLIB_HEADER != 0 && d.params.block_index == 0 {", "d.params.flags & TDEFL_WRITE_ZLIB_HEADER != 0 && d.params.block_index == 0 && (d.lz.total_bytes > 0 || flush == TDEFLFlush::Finish) {", None),
 ("C03-length-base-258", ["C03"], IC, "131, 163, 195, 227, 258, 512, 512, 512", "131, 163, 195, 227, 257, 512, 512, 512", None),
 ("C03-stored-bitbuf-bytes-dropped", ["C03"], IC, "                    if l.counter == 0 || l.num_bits == 0 {\n                        Action::Jump(RawMemcpy1)", "                    if l.counter == 0 || l.num_bits < 16 {\n                        l.num_bits = 0;\n                        l.bit_buf = 0;\n                        Action::Jump(RawMemcpy1)", None),
 ("C04-oversubscription-accepted", ["C04"], IC, "                if left < 0 {\n                    // Over-subscribed: too many codes for the available bit space.\n                    return Some(Action::Jump(BadTotalSymbols));\n                }", "", None),
 ("C04-hdist-32-accepted", ["C04"], IC, "r.table_sizes[LITLEN_TABLE] <= 286 && r.table_sizes[DIST_TABLE] <= 30 {", "r.table_sizes[LITLEN_TABLE] <= 286 && r.table_sizes[DIST_TABLE] <= 32 {", None),
 ("C04-truncation-reported-failed", ["C04"], IC, "        None => end_of_input(flags),\n        Some(byte) => f(byte),", "        None => {\n            if flags & TINFL_FLAG_HAS_MORE_INPUT == 0 && in_iter.bytes_left() == 0 {\n                Action::End(TINFLStatus::Failed)\n            } else {\n                end_of_input(flags)\n            }\n        }\n        Some(byte) => f(byte),", None),
 ("C05-len-codes-mask-removed", ["C05"], IC, "r.len_codes[l.counter as usize & LEN_CODES_MASK] = l.dist as u8;", "r.len_codes[l.counter as usize] = l.dist as u8;", None),
 ("C05-out-pos-check-dropped", ["C05"], IC, "(out_buf_size_mask.wrapping_add(1) & out_buf_size_mask) != 0 || out_pos > out.len() {", "(out_buf_size_mask.wrapping_add(1) & out_buf_size_mask) != 0 {", None),
 ("C06-undo-one-fewer", ["C06"], IC, "    let res = cmp::min(l.num_bits >> 3, max);", "    let res = cmp::min((l.num_bits >> 3).saturating_sub(1), max);", None),
 ("C07-has-more-output-override-removed", ["C07", "C08"], IC, "        status = TINFLStatus::HasMoreOutput\n    }", "        status = TINFLStatus::NeedsMoreInput\n    }", None),
 ("C07-num-extra-not-saved", ["C07", "C19"], IC, "    r.num_extra = l.num_extra;\n", "", None),
 ("C08-budget-ignored", ["C08", "C07"], IO, "        let mut max = position.saturating_add(max_count);\n        if max > slice.len() {", "        let mut max = position.saturating_add(max_count.max(4));\n        if max > slice.len() {", None),
 ("C09-fcheck-off-by-one-at-flevel1", ["C09"], DZ, "    flg + (FCHECK_DIVISOR - rem as u8)", "    flg + (FCHECK_DIVISOR - rem as u8) + ((flg >> 6) == 1) as u8", None),
 ("C09-trailer-little-endian", ["C09"], DC, "                        output.put_bits((adler >> 24) & 0xFF, 8);\n                        adler <<= 8;", "                        output.put_bits(adler & 0xFF, 8);\n                        adler >>= 8;", None),
 ("C09-adler-compare-skipped-at-pos0", ["C09"], IC, "                && r.check_adler32 != r.z_adler32\n", "                && r.check_adler32 != r.z_adler32\n                && out_pos != 0\n", None),
 ("C10-stored-len-unmasked", ["C10", "C02"], DC, "                output.put_bits(d.lz.total_bytes & 0xFFFF, 16);\n                output.put_bits(!d.lz.total_bytes & 0xFFFF, 16);", "                output.put_bits(d.lz.total_bytes & 0xFFFF, 16);\n                output.put_bits(!(d.lz.total_bytes + (d.lz.total_bytes >> 15 & 1)) & 0xFFFF, 16);", None),
 ("C10-filter-threshold-3", ["C10"], DC, "TDEFL_FILTER_MATCHES != 0 && cur_match_len <= 5;", "TDEFL_FILTER_MATCHES != 0 && cur_match_len <= 3;", None),
 ("C11-header-window-plus-one", ["C11"], DZ, "    let cmf = DEFAULT_CM | (window_bits.saturating_sub(8) << 4);", "    let cmf = DEFAULT_CM | ((window_bits.saturating_sub(8) + (window_bits < 15) as u8) << 4);", None),
 ("C12-full-flush-keeps-dict", ["C12"], DC, "                    d.dict.size = 0;\n", "", None),
 ("C12-sync-marker-two-bits", ["C12", "C02"], DC, "            TDEFLFlush::Sync | TDEFLFlush::Full => {\n                // Output an empty raw block.\n                output.put_bits(0, 3);", "            TDEFLFlush::Sync | TDEFLFlush::Full => {\n                // Output an empty raw block.\n                output.put_bits(0, 2);", None),
 ("C13-sticky-data-gate-dropped", ["C13"], IS, "    if (state.last_status as i32) < 0 {\n        return StreamResult::error(MZError::Data);\n    }\n", "", None),
 ("C13-dict-ofs-unmasked", ["C13", "C07"], IS, "    state.dict_ofs = (state.dict_ofs + (n)) & (TINFL_LZ_DICT_SIZE - 1);", "    state.dict_ofs = (state.dict_ofs + (n)) % (TINFL_LZ_DICT_SIZE + 1);", None),
 ("C14-no-progress-reported-ok", ["C14"], DS, "                Err(MZError::Buf)\n            };", "                Ok(MZStatus::Ok)\n            };", None),
 ("C14-loop-exit-one-byte-early", ["C14", "C02"], DS, "        if next_out.is_empty() {\n            break Ok(MZStatus::Ok);", "        if next_out.len() <= 1 {\n            break Ok(MZStatus::Ok);", None),
 ("C16-decoder-adler-from-zero", ["C16"], IC, "&out_buf.get_ref()[out_pos..out_buf_pos]);", "&out_buf.get_ref()[out_pos.min(1)..out_buf_pos]);", None),
 ("C16-compressor-adler-whole-chunk", ["C16", "C09"], DC, "update_adler32(d.params.adler32, &in_buf[..d.params.src_pos]);", "update_adler32(d.params.adler32, in_buf);", None),
 ("C17-avail-in-plus-one", ["C17"], "src/c_export.rs", "avail_in: self.next_in.map_or(0, |in_slice| in_slice.len() as c_uint),", "avail_in: self.next_in.map_or(0, |in_slice| in_slice.len() as c_uint + (in_slice.len() == 7) as c_uint),", None),
 ("C17-tinfl-out-size-without-next-pos", ["C17"], "src/tinfl.rs", "        let out_size = *out_buf_size + next_pos;", "        let out_size = *out_buf_size + next_pos + (next_pos > 0) as usize;", None),
 ("C17-putter-capacity-ge", ["C17"], "src/tdef.rs", "            if new_size > user.capacity {", "            if new_size > user.capacity + 1 {", None),
 ("C18-reset-keeps-saved-bits", ["C18"], DC, "        self.saved_bits_in = 0;\n        self.local_buf.b = [0; OUT_BUF_SIZE];", "        self.local_buf.b = [0; OUT_BUF_SIZE];", None),
 ("C18-dict-reset-keeps-size", ["C18"], DC, "        self.lookahead_size = 0;\n        self.lookahead_pos = 0;\n        self.size = 0;", "        self.lookahead_size = 0;\n        self.lookahead_pos = 0;", None),
 ("C18-minreset-keeps-dict-ofs", ["C18"], IS, "        state.dict_ofs = 0;\n        state.dict_avail = 0;", "        state.dict_avail = 0;", None),
 ("C19-serde-skips-num-extra", ["C19"], IC, "    /// Number of extra bits for the last length or distance code.\n    num_extra: u8,", "    /// Number of extra bits for the last length or distance code.\n    #[cfg_attr(feature = \"serde\", serde(skip))]\n    num_extra: u8,", None),
 ("C19-boundary-reported-twice", ["C19"], IC, "    if status == TINFLStatus::BlockBoundary {\n        state = State::ReadBlockHeader;\n    }", "    if status == TINFLStatus::BlockBoundary && l.num_bits != 0 {\n        state = State::ReadBlockHeader;\n    }", None),
 ("C19-boundary-record-without-adler", ["C19"], IC, "                check_adler32: self.check_adler32,\n            })", "                check_adler32: 1,\n            })", None),
]


def sh(cmd, **kw):
    return subprocess.run(cmd, stdout=subprocess.PIPE, stderr=subprocess.STDOUT, text=True, **kw)


def main():
    want = sys.argv[1:]
    os.makedirs(BASE, exist_ok=True)
    os.makedirs(V + "/sensitivity", exist_ok=True)
    sh(["git", "-C", "/repo", "worktree", "prune"])
    if not os.path.isdir(WT):
        r = sh(["git", "-C", "/repo", "worktree", "add", "--detach", WT, "HEAD", "-q"])
        if r.returncode:
            print(r.stdout)
            sys.exit(2)
    head = sh(["git", "-C", "/repo", "rev-parse", "HEAD"]).stdout.strip()
    env = dict(os.environ)
    env.update({"VERIF_REPO": WT, "VERIF_EVIDENCE_DIR": BASE + "/evidence", "VERIF_REPLAY_DIR": BASE + "/replays", "VERIF_ALT_DIR": BASE + "/sim", "VERIF_RUNS_SCALE": os.environ.get("VERIF_RUNS_SCALE", "0.5")})
    resp = V + "/sensitivity/results.json"
    results = json.load(open(resp)) if os.path.exists(resp) else {}
    for (mid, checks, path, old, new, occ) in M:
        if want and mid not in want:
            continue
        sh(["git", "-C", WT, "reset", "-q", "--hard", head])
        p = os.path.join(WT, path)
        s = open(p).read()
        n = s.count(old)
        if n == 0 or (occ is None and n != 1):
            results[mid] = {"error": "pattern found %d times" % n}
            print(mid, "PATTERN", n, flush=True)
            continue
        s = s.replace(old, new, 1)
        open(p, "w").write(s)
        diff = sh(["git", "-C", WT, "diff"]).stdout
        open(V + "/sensitivity/%s.diff" % mid, "w").write(diff)
        t = sh(["cargo", "test", "--workspace", "--no-fail-fast", "--offline"], cwd=WT)
        lines = [l for l in t.stdout.splitlines() if l.startswith("test result")]
        passed = sum(int(l.split()[3]) for l in lines)
        failed = sum(int(l.split()[5]) for l in lines)
        compiled = bool(lines)
        res = {"suite": "%d passed %d failed" % (passed, failed) if compiled else "does not compile", "checks": {}}
        if not compiled:
            print(mid, "DOES NOT COMPILE", t.stdout[-800:], flush=True)
        for c in checks:
            r = sh([V + "/check", c, "quick"], env=env, cwd=V)
            m = re.search(r"^check: clause (\S+(?:\[[^\]]*\])?)", r.stdout, re.M)
            res["checks"][c] = {"rc": r.returncode, "clause": m.group(1) if m else ""}
            print(mid, res["suite"], c, "rc=%d" % r.returncode, m.group(1) if m else "", flush=True)
        results[mid] = res
        json.dump(results, open(resp, "w"), indent=1)
    sh(["git", "-C", "/repo", "worktree", "remove", "--force", WT])
    shutil.rmtree(BASE, ignore_errors=True)
    with open(V + "/sensitivity/RESULTS.md", "w") as f:
        f.write("Sensitivity patches written by the author of the checks (DESIGN.md section 10); the independent ones are under seeded/.\n\n")
        f.write("| patch | existing suite | quick checks (rc, first clause) |\n|---|---|---|\n")
        for mid, r in results.items():
            if "error" in r:
                f.write("| %s | - | %s |\n" % (mid, r["error"]))
            else:
                f.write("| %s | %s | %s |\n" % (mid, r["suite"], "; ".join("%s: rc %d %s" % (c, x["rc"], x["clause"]) for c, x in r["checks"].items())))
    print("done")


main()
