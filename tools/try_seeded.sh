#!/bin/bash
# usage: tools/try_seeded.sh <seeded id | path to patch.diff> [checks...]   (TIER=quick|thorough, VERIF_RUNS_SCALE passed through)
# Applies the change to a scratch worktree of /repo (never to /repo) and runs the given checks through VERIF_REPO.
id=$1; shift
V=$(cd "$(dirname "$0")/.." && pwd)
if [ -f "$id" ]; then patch=$id; id=$(basename $(dirname $id)); else patch=$V/seeded/$id/patch.diff; fi
checks=${@:-$(python3 -c "import json;print(json.load(open('$V/seeded/$id/meta.json'))['breaks_property'])")}
R=/tmp/tryrun-$$; WT=$R/wt
mkdir -p $R
git -C /repo worktree prune
git -C /repo worktree add --detach $WT HEAD -q || exit 2
trap 'git -C /repo worktree remove --force $WT 2>/dev/null; rm -rf $R' EXIT
git -C $WT apply $patch 2>/dev/null || git -C $WT apply --3way $patch || { echo "patch does not apply"; exit 2; }
for c in $checks; do
  out=$(VERIF_REPO=$WT VERIF_EVIDENCE_DIR=$R/ev VERIF_REPLAY_DIR=$R/replays VERIF_ALT_DIR=$R/sim $V/check $c ${TIER:-quick} 2>&1)
  rc=$?
  echo "== $id $c rc=$rc: $(echo "$out" | grep -E '^check: (clause|HARNESS)' | head -1 | cut -c1-330)"
done
